/* LD_PRELOAD interposer for the production demo binaries (C20, demo half).
 * It interposes oneTBB's exported entry  tbb::detail::r1::execute_and_wait  (every parallel_for /
 * parallel_reduce of the calling program goes through it) and, on every call, asks the real runtime for
 * tbb::detail::r1::global_control_active_value(max_allowed_parallelism).  It also counts creations and
 * destructions of global_control objects.  At exit it writes to $TBBWATCH_OUT one JSON line:
 *   {"regions":N,"controls_created":a,"controls_destroyed":b,"active_values":{"<v>":count,...}}
 * so the monitor sees which parallelism limit was really in force while the algorithms ran. */
#define _GNU_SOURCE
#include <dlfcn.h>
#include <stdio.h>
#include <stdlib.h>
#include <string.h>

#define EXEC_AND_WAIT _ZN3tbb6detail2r116execute_and_waitERNS0_2d14taskERNS2_18task_group_contextERNS2_12wait_contextES6_
#define GC_CREATE _ZN3tbb6detail2r16createERNS0_2d114global_controlE
#define GC_DESTROY _ZN3tbb6detail2r17destroyERNS0_2d114global_controlE
#define GC_ACTIVE "_ZN3tbb6detail2r127global_control_active_valueEi"
#define STR2(x) #x
#define STR(x) STR2(x)

#define MAXV 64
static unsigned long g_vals[MAXV]; static long g_counts[MAXV]; static int g_nvals = 0;
static long g_regions = 0, g_created = 0, g_destroyed = 0;
static volatile int g_lock = 0;
static void lock(void) { while (__sync_lock_test_and_set(&g_lock, 1)) { } }
static void unlock(void) { __sync_lock_release(&g_lock); }

static void note(unsigned long v) {
    lock();
    g_regions++;
    int i; for (i = 0; i < g_nvals; i++) if (g_vals[i] == v) { g_counts[i]++; unlock(); return; }
    if (g_nvals < MAXV) { g_vals[g_nvals] = v; g_counts[g_nvals] = 1; g_nvals++; }
    unlock();
}

void EXEC_AND_WAIT(void *t, void *ctx, void *wctx, void *ctx2) {
    static void (*real)(void *, void *, void *, void *) = 0;
    static unsigned long (*active)(int) = 0;
    if (!real) real = (void (*)(void *, void *, void *, void *)) dlsym(RTLD_NEXT, STR(EXEC_AND_WAIT));
    if (!active) active = (unsigned long (*)(int)) dlsym(RTLD_NEXT, GC_ACTIVE);
    if (active) note(active(0)); else note(0);
    real(t, ctx, wctx, ctx2);
}
void GC_CREATE(void *gc) {
    static void (*real)(void *) = 0;
    if (!real) real = (void (*)(void *)) dlsym(RTLD_NEXT, STR(GC_CREATE));
    __sync_fetch_and_add(&g_created, 1);
    real(gc);
}
void GC_DESTROY(void *gc) {
    static void (*real)(void *) = 0;
    if (!real) real = (void (*)(void *)) dlsym(RTLD_NEXT, STR(GC_DESTROY));
    __sync_fetch_and_add(&g_destroyed, 1);
    real(gc);
}
static void dump(void) {
    const char *p = getenv("TBBWATCH_OUT");
    if (!p) return;
    FILE *f = fopen(p, "w");
    if (!f) return;
    fprintf(f, "{\"regions\":%ld,\"controls_created\":%ld,\"controls_destroyed\":%ld,\"active_values\":{", g_regions, g_created, g_destroyed);
    int i; for (i = 0; i < g_nvals; i++) fprintf(f, "%s\"%lu\":%ld", i ? "," : "", g_vals[i], g_counts[i]);
    fprintf(f, "}}\n");
    fclose(f);
}
__attribute__((constructor)) static void init(void) { atexit(dump); }
