"""DIMACS file generator for the process-level monitors (C11, C20) with an independent optimum oracle
(Horton candidates + GF(2) elimination on Python ints as bitsets; exact integer weights)."""
import random, heapq


def components(n, edges):
    p = list(range(n))
    def f(x):
        while p[x] != x:
            p[x] = p[p[x]]; x = p[x]
        return x
    c = n
    for u, v, w in edges:
        a, b = f(u), f(v)
        if a != b:
            p[a] = b; c -= 1
    return c


def mcb_optimum(n, edges):
    """edges: list of (u, v, w) 0-based, simple graph, positive integer weights -> minimum cycle basis weight"""
    m = len(edges)
    dim = m - n + components(n, edges)
    if dim == 0:
        return 0, 0
    adj = [[] for _ in range(n)]
    for i, (u, v, w) in enumerate(edges):
        adj[u].append((v, i)); adj[v].append((u, i))
    cands = []
    for r in range(n):
        dist = [None] * n; pe = [-1] * n; dist[r] = 0
        pq = [(0, r)]; done = [False] * n
        while pq:
            d, x = heapq.heappop(pq)
            if done[x]:
                continue
            done[x] = True
            for y, i in adj[x]:
                nd = d + edges[i][2]
                if dist[y] is None or nd < dist[y]:
                    dist[y] = nd; pe[y] = i; heapq.heappush(pq, (nd, y))
        for i, (x, y, w) in enumerate(edges):
            if dist[x] is None or dist[y] is None or pe[x] == i or pe[y] == i:
                continue
            inc = 1 << i
            for a in (x, y):
                while a != r:
                    j = pe[a]; inc ^= 1 << j
                    a = edges[j][1] if edges[j][0] == a else edges[j][0]
            wt = sum(edges[j][2] for j in range(m) if inc >> j & 1)
            cands.append((wt, inc))
    cands.sort(key=lambda c: c[0])
    basis = {}   # pivot bit -> vector
    total = 0; got = 0
    for wt, v in cands:
        while v:
            low = v & -v
            if low in basis:
                v ^= basis[low]
            else:
                basis[low] = v; total += wt; got += 1
                break
        if got == dim:
            break
    assert got == dim
    return total, dim


def gen_valid(rng, max_n=25, wmax=30):
    kind = rng.randrange(8)
    E = set()
    def add(a, b):
        if a != b:
            E.add((min(a, b), max(a, b)))
    if kind <= 1:
        n = rng.randint(2, max_n); p = rng.choice([0.1, 0.2, 0.3, 0.5, 0.8])
        for i in range(n):
            for j in range(i + 1, n):
                if rng.random() < p:
                    add(i, j)
    elif kind == 2:
        a = rng.randint(2, 5); b = rng.randint(2, max(2, min(6, max_n // a))); n = a * b
        for i in range(a):
            for j in range(b):
                if j + 1 < b: add(i * b + j, i * b + j + 1)
                if i + 1 < a: add(i * b + j, (i + 1) * b + j)
    elif kind == 3:
        n = rng.randint(3, min(max_n, 20))
        for i in range(n): add(i, (i + 1) % n)
        for _ in range(rng.randint(0, 5)): add(rng.randrange(n), rng.randrange(n))
    elif kind == 4:
        n = rng.randint(3, min(9, max_n))
        for i in range(n):
            for j in range(i + 1, n): add(i, j)
    elif kind == 5:
        a = rng.randint(2, 5); b = rng.randint(2, 5); n = a + b
        for i in range(a):
            for j in range(b): add(i, a + j)
    elif kind == 6:
        n = rng.randint(1, min(max_n, 15))
        for i in range(1, n): add(rng.randrange(i), i)
    else:
        # two components plus isolated vertices
        n1 = rng.randint(3, 8); n2 = rng.randint(3, 8); n = n1 + n2 + rng.randint(0, 2)
        for i in range(n1): add(i, (i + 1) % n1)
        for i in range(n2): add(n1 + i, n1 + (i + 1) % n2)
        add(0, n1 // 2); add(n1, n1 + n2 // 2)
    scheme = rng.randrange(3)
    edges = []
    perm = list(range(n)); rng.shuffle(perm)
    for (a, b) in sorted(E):
        w = 1 if scheme == 0 else rng.randint(1, 3) if scheme == 1 else rng.randint(1, wmax)
        a, b = perm[a], perm[b]
        if rng.random() < 0.5: a, b = b, a
        edges.append((a, b, w))
    rng.shuffle(edges)
    return n, edges


def make_invalid(rng, n, edges, only=None):
    """inject one or several precondition violations (only=0/1/2: exactly one violation of that kind: loop / parallel / non-positive);
    returns (n, edges_as_written, kinds)"""
    out = [(u, v, str(w)) for u, v, w in edges]
    kinds = set()
    if n == 0:
        n = 1
    if only == 1 and not out:
        only = 0
    if only == 2 and n < 2:
        only = 0
    for _ in range(1 if only is not None else rng.randint(1, 3)):
        k = only if only is not None else rng.randrange(3)
        pos = rng.randint(0, len(out))
        if k == 0:
            v = rng.randrange(n); out.insert(pos, (v, v, str(rng.randint(1, 5)))); kinds.add('loop')
        elif k == 1 and out:
            cands = [t for t in out if t[0] != t[1]]
            if not cands:
                v = rng.randrange(n); out.insert(pos, (v, v, '1')); kinds.add('loop'); continue
            u, v, w = rng.choice(cands)
            if rng.random() < 0.6:
                # an edge whose end points both carry other edges, and the copy as far from the original as the file allows,
                # so that the two copies are not neighbours in either adjacency list
                deg = {}
                for a_, b_, c_ in out:
                    deg[a_] = deg.get(a_, 0) + 1; deg[b_] = deg.get(b_, 0) + 1
                best = max(min(deg[t[0]], deg[t[1]]) for t in cands)
                u, v, w = rng.choice([t for t in cands if min(deg[t[0]], deg[t[1]]) == best])
                i = out.index((u, v, w)); pos = len(out) if i < len(out) / 2.0 else 0
            if rng.random() < 0.5: u, v = v, u
            out.insert(pos, (u, v, str(rng.randint(1, 5)))); kinds.add('parallel')
        elif n >= 2:
            if out and rng.random() < 0.5:
                i = rng.randrange(len(out)); u, v, w = out[i]; out[i] = (u, v, rng.choice(['0', '-1', '-2.5', '0.0']))
            else:
                u = rng.randrange(n); v = (u + 1 + rng.randrange(n - 1)) % n
                out.insert(pos, (u, v, rng.choice(['0', '-3', '0.0'])))
            kinds.add('nonpositive')
    if not kinds:   # nothing could be injected (e.g. a single vertex without edges and an unlucky draw): a self-loop always can
        v = rng.randrange(n); out.append((v, v, '1')); kinds.add('loop')
    return n, out, sorted(kinds)


def write_dimacs(path, n, edges_w_tokens, rng, trailing_newline=True, omit_unit=False):
    lines = []
    if rng.random() < 0.3: lines.append('c generated by the parmcb monitors')
    lines.append('p edge %d %d' % (n, len(edges_w_tokens)))
    for u, v, w in edges_w_tokens:
        if rng.random() < 0.05: lines.append('c comment')
        if omit_unit and str(w) == '1' and rng.random() < 0.6:
            lines.append('%s %d %d' % (rng.choice('ea'), u + 1, v + 1))      # weight omitted: the reader's default of 1 applies
        else:
            lines.append('%s %d %d %s' % (rng.choice('ea'), u + 1, v + 1, w))
    txt = '\n'.join(lines) + ('\n' if trailing_newline else '')
    with open(path, 'w') as f:
        f.write(txt)
    return txt


def gen_large_valid(rng):
    """a valid graph with 46341..70000 vertices: a small random graph (which carries all the cycles, so the optimum is the small
    graph's) plus a pendant forest over the remaining vertices; returns n, edges, optimum, cycle-space dimension"""
    n0, edges = gen_valid(rng, max_n=14)
    opt, dim = mcb_optimum(n0, edges)
    n = rng.choice([46341, 46342, rng.randint(46343, 50000), rng.randint(50000, 65535), 65536, rng.randint(65537, 70000), rng.randint(46342, 65536)])
    E = list(edges)
    isolated = rng.random() < 0.3
    for v in range(n0, n):
        if isolated and rng.random() < 0.001:
            continue                                   # a few isolated vertices / separate components
        E.append((v - 1 if rng.random() < 0.7 else rng.randrange(max(0, v - 50), v), v, rng.randint(1, 9)))
    rng.shuffle(E)
    assert len(set((min(a, b), max(a, b)) for a, b, w in E)) == len(E) and all(a != b and w > 0 for a, b, w in E)
    assert len(E) - n + components(n, E) == dim
    return n, E, opt, dim


def big_graph(rng, n=150, m=450, wmax=9):
    E = set()
    while len(E) < m:
        a, b = rng.randrange(n), rng.randrange(n)
        if a != b:
            E.add((min(a, b), max(a, b)))
    return n, [(a, b, rng.randint(1, wmax)) for a, b in sorted(E)]
