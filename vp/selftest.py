#!/usr/bin/env python3
"""Runs the self-test mutants (mutants/*.diff) against the checks that should catch them and writes mutants/RESULTS.json.
usage: vp/selftest.py [name-substring ...]"""
import os, sys, subprocess, json, re, time
VERIF = os.path.dirname(os.path.dirname(os.path.abspath(__file__)))
TABLE = {
    'm_c01_dup_edge': ['C01', 'C02'],
    'm_c02_stoprule': ['C02', 'C08'],
    'm_c02_hidden_not_erased': ['C02', 'C01'],
    'm_c03_stdvector': ['C03'],
    'm_c03_join_prefers_heavier': ['C03'],
    'm_c04_floor_stride': ['C04'],
    'm_c05_untranslated': ['C05', 'C07'],
    'm_c06_unsorted': ['C06', 'C15'],
    'm_c10_default_weight': ['C10'],
    'm_c11_rank0_only': ['C11'],
    'm_c12_lex_no_vertexset': ['C12', 'C14', 'C02'],
    'm_c13_cleanup_stops': ['C13'],
    'm_c14_no_first_test': ['C14', 'C01'],
    'm_c15_hops_2k': ['C15', 'C06'],
    'm_c16_swap_counters': ['C16'],
    'm_c17_drop_tail': ['C17'],
    'm_c18_inverse_sign': ['C18'],
    'm_c20_verbose_only': ['C20'],
}
def main():
    sel = sys.argv[1:]
    out_path = os.path.join(VERIF, 'mutants', 'RESULTS.json')
    res = json.load(open(out_path)) if os.path.exists(out_path) else {}
    for name, checks in TABLE.items():
        if sel and not any(x in name for x in sel):
            continue
        patch = os.path.join(VERIF, 'mutants', name + '.diff')
        t0 = time.time()
        p = subprocess.run([sys.executable, os.path.join(VERIF, 'vp/mutant.py'), patch] + checks, stdout=subprocess.PIPE, stderr=subprocess.STDOUT, text=True)
        m = re.search(r'RESULT (\{.*\})', p.stdout)
        r = json.loads(m.group(1)) if m else {}
        keys = re.findall(r'key=(\S+)', p.stdout)
        res[name] = dict(checks=r, caught=[c for c, rc in r.items() if rc == 1], keys=sorted(set(keys))[:8], wall_s=round(time.time() - t0))
        print(name, res[name], flush=True)
        json.dump(res, open(out_path, 'w'), indent=1, sort_keys=True)
if __name__ == '__main__':
    main()
