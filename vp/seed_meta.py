#!/usr/bin/env python3
"""Writes seeded/<name>/meta.json from the table below plus the recorded check results (seeded/RESULTS.json)."""
import json, os
VERIF = os.path.dirname(os.path.dirname(os.path.abspath(__file__)))
T = {
 'C01-edge-count-not-incremented': ('C01', 'LexDistanceCombine refactored to copy the label in place and forgets edge_count+1: the hop tie-break collapses, trees become inconsistent, the ISO collection loses cycles and mcb_sva_iso_trees emits an empty cycle', 'two equal-weight shortest paths with different hop counts (e.g. an edge of weight 3 beside a 1+2 path) that also make a needed isometric class disappear; ~0.3% of small random integer-weight graphs; unit weights never'),
 'C02-hidden-edge-lag': ('C02', 'hidden_edges.erase moved inside the "search found a path" branch of mcb_sva_signed: after the first search cut off by the weight limit the hidden set lags by one edge and the true shortest odd cycle can be missed', 'a phase with 3 <= |S| < n whose search for one signed edge is cut off by the weight limit and whose shortest odd cycle crosses >= 3 signed edges; 0.3-3% of weighted random graphs, never on unit weights'),
 'C03-join-comparator-swapped': ('C03', 'arguments of compare swapped in the cycle_min join of OddCycleFinder::find_all_vertices: when both partial results are valid the heavier cycle wins', 'dense graph (|S_k| >= n so the all-vertices branch runs) AND a schedule that splits the vertex range into at least two accumulation runs with the lighter result on the right'),
 'C04-hidden-sets-address-order': ('C04', 'hidden-edge sets of mcb_sva_signed_mpi rebuilt from the std::set<Edge> (address order) while the slices keep the forest-index order', '>= 2 ranks whose edge-property address orders differ, and a phase with 2 <= |S| < n whose shortest odd cycle carries >= 3 signed edges'),
 'C05-hoisted-scratch-list': ('C05', 'scratch list for translating spanner cycles hoisted out of the loop and never cleared: the i-th spanner cycle is emitted as C1+...+Ci', 'a (2k-1)-spanner with at least two independent cycles (never a forest spanner, never exactly one cycle)'),
 'C06-dijkstra-stale-pred': ('C06', 'decrease-key branch of parmcb::dijkstra no longer updates the predecessor: non-spanner edges are closed with the first-discovered instead of the shortest spanner path', 'k >= 2, a spanner that keeps a very heavy edge, and several dropped chords inserted as (v,u) whose search from v discovers u first through the heavy edge; 2000 random small graphs do not show it'),
 'C07-untranslated-descriptor-pushed': ('C07', 'wrong variable: the untranslated spanner edge is pushed into the emitted cycle (the translated one is still used for the weight): descriptors dangle after return', 'an approximate entry point whose spanner still has a cycle, and a caller that dereferences the returned descriptors; results look identical without a sanitizer'),
 'C08-loop-order-vs-set-order': ('C08', 'hidden-edge loop of mcb_sva_signed walks the support vector (forest-index order) while hidden_edges.erase(begin()) assumes std::set<Edge> (address) order', 'a heap layout in which edge-property addresses are not in insertion order (recycled memory) and a minimum odd cycle crossing >= 3 signed edges; invisible on a fresh heap'),
 'C09-candidate-weight-as-limit': ('C09', 'the weight recorded in a candidate is used as an extra upper bound when the cycle is rebuilt edge by edge: with inexact sums the rebuilt weight can land one ulp above it and a needed candidate is discarded (fvs variants)', 'weights that are not exactly summable (decimals) and a basis cycle with >= 4 edges whose two summation orders round differently; integers never'),
 'C10-hoisted-default-weight': ('C10', 'edge-line scratch variables hoisted out of the read loop: an omitted weight keeps the previous line\'s weight instead of defaulting to 1', 'a file that mixes both styles with a weight-less line after a line whose explicit weight is not 1'),
 'C11-return-inside-rank0-block': ('C11', 'return EXIT_FAILURE of the parallel-edges gate of mcb-dimacs-mpi moved inside the rank-0-only block', 'parallel edges as the ONLY violated precondition and >= 2 MPI processes: the job never terminates'),
 'C12-lex-compare-dropped-case': ('C12', 'the "a.edge_count > b.edge_count => false" case dropped from LexDistanceCompare: the comparator is no longer antisymmetric', 'two equal-weight shortest paths with different hop counts where the longer one contains a smaller vertex index; small integer weights, never unit weights'),
 'C13-forest-fast-path': ('C13', 'bogus "fewer edges than vertices => forest" early return in greedy_fvs', 'a DISCONNECTED graph with m < n that still has a cyclic component (e.g. triangle + isolated vertices)'),
 'C14-first-in-path-root-unset': ('C14', 'compute_first_in_path "simplified": first(root) is never written and stays 0', 'a non-tree edge incident to a root x != 0 whose detour leaves x through vertex 0 (needs a heavy edge; unit-weight graphs never)'),
 'C15-bfs-dist-overwrite': ('C15', 'dist_map update of is_bfs_reachable moved out of the first-visit guard: an already queued vertex is relabelled d+1', 'partial spanner with an odd cycle of >= 2k+1 edges through the BFS source and a true hop distance close to 2k-1; k >= 2'),
 'C16-edgeless-shortcut': ('C16', 'spanning_forest returns 0 components for any graph without edges', 'graphs with >= 1 vertex and no edge (single vertex, edgeless): components 0, dimension wraps around'),
 'C17-concat-fast-path': ('C17', 'concatenation fast path in SpVecGF2::operator+ guarded by >= instead of >', 'operands with min(lhs) == max(rhs) exactly, e.g. {3,7}+{1,3} or e_i+e_i'),
 'C18-swapped-branch-signs': ('C18', 'sign flags applied to the wrong coefficient in the swapped branch of ext_gcd', '|b| > |a| and exactly one of a, b negative (for inverses: negative a with |a| < p)'),
 'C20-release-instead-of-reset': ('C20', 'unique_ptr::release instead of reset: earlier global_control objects leak and stay alive, the smallest value ever passed wins', 'at least two calls in one process with a later call asking for MORE than an earlier one; the demos (one call) are unaffected'),
}
def main():
    res = json.load(open(os.path.join(VERIF, 'seeded', 'RESULTS.json')))
    for name, (prop, what, needs) in T.items():
        d = os.path.join(VERIF, 'seeded', name)
        if not os.path.isdir(d):
            continue
        r = res.get(name, {})
        meta = dict(property=prop, origin='independent sub-agent given only the property text and a scratch worktree of /repo (HEAD incl. hook and fix commits); nothing from /verif',
                    change=what, needs_to_manifest=needs,
                    confirmed=dict(compiles_and_baseline_tests_pass_with_change=open(os.path.join(d, 'ctest_with_change.txt')).read().strip().splitlines()[-1] if os.path.exists(os.path.join(d, 'ctest_with_change.txt')) else None,
                                   demo_fails_with_change='see demo_with_change.txt', demo_passes_without_change='see demo_without_change.txt',
                                   how='vp/seed_verify.sh <worktree> %s (build + ctest with the change; demo built against the changed headers and against a git-archive export of HEAD)' % name),
                    checks_run=r.get('checks', {}), caught_by=[c for c, rc in r.get('checks', {}).items() if rc == 1], violation_keys=r.get('keys', []),
                    how_checks_were_run='python3 vp/mutant.py seeded/%s/patch.diff <IDs>  (scratch copy of /repo with the patch applied, VERIF_REPO pointing at it, quick tier, seed 1; copy and build output removed afterwards)' % name)
        json.dump(meta, open(os.path.join(d, 'meta.json'), 'w'), indent=1)
    print('meta written for', len([n for n in T if os.path.isdir(os.path.join(VERIF, 'seeded', n))]))
if __name__ == '__main__':
    main()
