"""python3 vp/check.py <ID> --replay <file>: feed exactly the recorded case to the same monitor, rebuilt from the current tree.
Cases are pure functions of (seed, check, index, options), all of which the replay file records; the full case is also
written out in the file (graph / spec_text / command line) for reading and for direct use with the harness's --replay."""
import json, os, sys
import lib


def replay(prop, path):
    rec = json.load(open(path))
    v = rec.get('violation', {})
    rr = v.get('rerun')
    tier = rec.get('tier', 'quick'); seed = rec.get('seed', 1)
    if not rr:
        print('replay file has no rerun record'); return 2
    verdict = lib.Verdict(prop, tier, seed)
    lib.OUT_REPLAY = True
    if rr['kind'] == 'harness':
        b = lib.build(rr['harness'], rr['flavour'])
        agg = lib.run_cases(b, rr['mode'], rr['seed'], 1, opts=rr.get('opts'), env=rr.get('env'), start=rr['idx'], nproc=1, chunk=1, wrapper=rr.get('wrapper') or None,
                            timeout=360 if str(rec.get('key', '')).startswith('hang:') else 3600)   # a recorded hang: three strikes of 6 / 2 / 2 minutes on the single case
        verdict.absorb(agg, functional=(prop != 'C07'))
    elif rr['kind'] == 'mpi':
        import mpirun
        b = lib.build('h_mpi', 'mpi')
        agg = lib.Agg()
        mpirun.run_mpi_cases(agg, b, rr['seed'], rr['ranks'], rr['idx'], rr['idx'] + 1, rr.get('opts'), 600, 'h_mpi:P=%d' % rr['ranks'], [])
        verdict.absorb(agg)
    elif rr['kind'] == 'c11':
        import demos
        return demos.check_c11(tier, seed, only=[rr['idx']])
    elif rr['kind'] == 'c20demo':
        import demos
        r = demos.Recorder('c20demo'); demos.c20_demo_part(r, tier, seed, only=[rr['idx']]); verdict.absorb(r.agg); agg = r.agg
    else:
        print('unknown replay kind'); return 2
    hit = [k for k in verdict.new] + [k for k in verdict.known]
    print('REPLAY property=%s recorded_key=%s reproduced=%s keys_now=%s' % (prop, rec.get('key'), 'yes' if rec.get('key') in verdict.new or any(rec.get('key', '').startswith(k.split(':')[0]) for k in verdict.new) else 'no', sorted(verdict.new)))
    for k, vs in verdict.new.items():
        print('VIOLATION property=%s replay=%s' % (prop, path))
        print('  key=%s %s' % (k, (vs[0].get('detail') or '')[:300]))
    return 1 if verdict.new else 0
