"""Shared driver machinery: building harnesses from /repo's current working tree, running case
batches with crash containment and watchdogs, known-findings matching, evidence and replay files."""
import os, sys, json, hashlib, subprocess, time, shutil, fcntl, re, threading, collections, signal
from concurrent.futures import ThreadPoolExecutor

VERIF = os.path.dirname(os.path.dirname(os.path.abspath(__file__)))
REPO = os.environ.get('VERIF_REPO', '/repo')
BUILD = os.environ.get('VERIF_BUILD', os.path.join(VERIF, 'build'))
NPROC = int(os.environ.get('VERIF_JOBS', str(os.cpu_count() or 8)))
GUARD = 'PARMCB_VERIF'
OUT = os.environ.get('VERIF_OUT', VERIF)   # where evidence/ and replays/ go (redirected for mutant self-tests)


class HarnessFailure(Exception):
    pass


def log(*a):
    print(*a, file=sys.stderr, flush=True)


# ---------------------------------------------------------------------------------------------
# hashing of the tree under test and of the harness sources
# ---------------------------------------------------------------------------------------------
def _hash_dir(h, root, rel):
    p = os.path.join(root, rel)
    if os.path.isfile(p):
        h.update(rel.encode()); h.update(b'\0')
        with open(p, 'rb') as f:
            h.update(f.read())
        return
    if not os.path.isdir(p):
        return
    for dp, dn, fn in sorted(os.walk(p)):
        dn.sort()
        for f in sorted(fn):
            fp = os.path.join(dp, f)
            h.update(os.path.relpath(fp, root).encode()); h.update(b'\0')
            try:
                with open(fp, 'rb') as fh:
                    h.update(fh.read())
            except OSError:
                pass


_tree_hash = None


def tree_hash():
    global _tree_hash
    if _tree_hash is None:
        h = hashlib.sha1()
        for rel in ('include', 'src', 'CMakeLists.txt', 'etc'):
            _hash_dir(h, REPO, rel)
        _tree_hash = h.hexdigest()[:16]
    return _tree_hash


_harness_hash = {}


def harness_hash(harness=None):
    """content hash of one harness source plus the shared headers (common/, tbbshim/) and preload helpers"""
    if harness not in _harness_hash:
        h = hashlib.sha1()
        _hash_dir(h, VERIF, 'harness/common')
        _hash_dir(h, VERIF, 'harness/tbbshim')
        _hash_dir(h, VERIF, 'preload')
        if harness:
            _hash_dir(h, VERIF, 'harness/%s.cpp' % harness)
        else:
            _hash_dir(h, VERIF, 'harness')
        _harness_hash[harness] = h.hexdigest()[:12]
    return _harness_hash[harness]


def tree_dir():
    d = os.path.join(BUILD, tree_hash())
    os.makedirs(d, exist_ok=True)
    os.utime(d, None)
    return d


def prune_cache(keep=4):
    """keep the build output of the few most recently used trees only (disk is limited)"""
    try:
        ds = [os.path.join(BUILD, d) for d in os.listdir(BUILD) if os.path.isdir(os.path.join(BUILD, d))]
    except OSError:
        return
    ds.sort(key=lambda d: os.path.getmtime(d), reverse=True)
    for d in ds[keep:]:
        shutil.rmtree(d, ignore_errors=True)


class FileLock:
    def __init__(self, path):
        self.path = path

    def __enter__(self):
        os.makedirs(os.path.dirname(self.path), exist_ok=True)
        self.f = open(self.path, 'w')
        fcntl.flock(self.f, fcntl.LOCK_EX)
        return self

    def __exit__(self, *a):
        fcntl.flock(self.f, fcntl.LOCK_UN)
        self.f.close()


# ---------------------------------------------------------------------------------------------
# cmake configure (config.hpp as the project generates it) and the demo executables
# ---------------------------------------------------------------------------------------------
def cmake_dir(kind='rel'):
    return os.path.join(tree_dir(), 'cm-' + kind)


def ensure_configured(kind='rel'):
    d = cmake_dir(kind)
    with FileLock(d + '.lock'):
        if os.path.exists(os.path.join(d, 'include/parmcb/config.hpp')) and os.path.exists(os.path.join(d, 'build.ninja')):
            return d
        flags = '-Wno-error'
        btype = 'RelWithDebInfo'
        if kind == 'asan':
            flags = '-Wno-error -O1 -g -fno-omit-frame-pointer -fsanitize=address,undefined -fno-sanitize-recover=all -D_GLIBCXX_ASSERTIONS -UNDEBUG'
            btype = 'Debug'
        cmd = ['cmake', '-S', REPO, '-B', d, '-G', 'Ninja', '-DCMAKE_BUILD_TYPE=' + btype, '-DCMAKE_CXX_FLAGS=' + flags]
        r = subprocess.run(cmd, stdout=subprocess.PIPE, stderr=subprocess.STDOUT, text=True)
        if r.returncode != 0 or not os.path.exists(os.path.join(d, 'include/parmcb/config.hpp')):
            raise HarnessFailure('cmake configure failed:\n' + r.stdout[-3000:])
        return d


DEMOS = ['mcb-dimacs', 'approx-mcb-dimacs', 'collection-stats-dimacs', 'mcb-dimacs-mpi']


def ensure_demos(kind='rel', targets=None):
    d = ensure_configured(kind)
    targets = targets or DEMOS
    with FileLock(d + '.build.lock'):
        r = subprocess.run(['cmake', '--build', d, '-j', str(NPROC), '--target'] + targets, stdout=subprocess.PIPE, stderr=subprocess.STDOUT, text=True)
        if r.returncode != 0:
            raise HarnessFailure('building the demo programs failed:\n' + r.stdout[-4000:])
    return {t: os.path.join(d, t) for t in targets}


# ---------------------------------------------------------------------------------------------
# harness builds, one sanitizer family per flavour
# ---------------------------------------------------------------------------------------------
FLAVOURS = {
    'plain': dict(cxx='g++', flags='-O2 -DNDEBUG', libs='-ltbb -lboost_timer -lpthread', shim=False),
    'asan': dict(cxx='g++', flags='-O1 -g -fno-omit-frame-pointer -fsanitize=address,undefined -fno-sanitize-recover=all -D_GLIBCXX_ASSERTIONS',
                 libs='-ltbb -lboost_timer -lpthread', shim=False),
    'shim': dict(cxx='g++', flags='-O2 -DNDEBUG -DVSHIM', libs='-lboost_timer -lpthread', shim=True),
    'tsan': dict(cxx='g++', flags='-O1 -g -fno-omit-frame-pointer -fsanitize=thread -DVSHIM', libs='-lboost_timer -lpthread', shim=True),
    'mpi': dict(cxx='mpicxx', flags='-O2 -DNDEBUG', libs='-ltbb -lboost_mpi -lboost_serialization -lboost_timer -lpthread', shim=False),
    'mpiasan': dict(cxx='mpicxx', flags='-O1 -g -fno-omit-frame-pointer -fsanitize=address,undefined -fno-sanitize-recover=all -D_GLIBCXX_ASSERTIONS',
                    libs='-ltbb -lboost_mpi -lboost_serialization -lboost_timer -lpthread', shim=False),
    'valgrind': dict(cxx='g++', flags='-O1 -g -DNDEBUG', libs='-ltbb -lboost_timer -lpthread', shim=False),
    'cov': dict(cxx='g++', flags='-O0 -g --coverage -DNDEBUG', libs='-ltbb -lboost_timer -lpthread', shim=False),
}


def binary_path(harness, flavour):
    return os.path.join(tree_dir(), flavour, '%s-%s' % (harness, harness_hash(harness)))


FAST = bool(os.environ.get('VERIF_FAST'))            # mutation sweeps only: functional flavours only (no sanitizer / valgrind / coverage builds)
FAST_SKIP = ('asan', 'tsan', 'valgrind', 'cov', 'mpiasan')


def build(harness, flavour, extra_flags=''):
    """compile harness/<harness>.cpp for a flavour against REPO's current working tree (cached by content hash)"""
    if FAST and flavour in FAST_SKIP:
        return '/skipped/%s/%s-0' % (flavour, harness)
    out = binary_path(harness, flavour) + (('-' + hashlib.sha1(extra_flags.encode()).hexdigest()[:6]) if extra_flags else '')
    with FileLock(out + '.lock'):
        if os.path.exists(out) and os.path.exists(out + '.ok'):
            return out
        cfg = ensure_configured('rel')
        fl = FLAVOURS[flavour]
        src = os.path.join(VERIF, 'harness', harness + '.cpp')
        inc = []
        if fl['shim']:
            inc += ['-I' + os.path.join(VERIF, 'harness', 'tbbshim')]
        inc += ['-I' + os.path.join(REPO, 'include'), '-I' + os.path.join(cfg, 'include'), '-I' + os.path.join(VERIF, 'harness')]
        cmd = [fl['cxx'], '-std=c++14', '-w', '-D' + GUARD] + fl['flags'].split() + extra_flags.split() + inc + [src, '-o', out] + fl['libs'].split()
        if flavour == 'cov':
            # keep the .gcno next to the binary
            cmd = [fl['cxx'], '-std=c++14', '-w', '-D' + GUARD] + fl['flags'].split() + extra_flags.split() + inc + ['-c', src, '-o', out + '.o']
            t0 = time.time()
            r = subprocess.run(cmd, stdout=subprocess.PIPE, stderr=subprocess.STDOUT, text=True)
            if r.returncode == 0:
                r = subprocess.run([fl['cxx'], '--coverage', out + '.o', '-o', out] + fl['libs'].split(), stdout=subprocess.PIPE, stderr=subprocess.STDOUT, text=True)
        else:
            t0 = time.time()
            r = subprocess.run(cmd, stdout=subprocess.PIPE, stderr=subprocess.STDOUT, text=True)
        if r.returncode != 0:
            raise HarnessFailure('compiling %s (%s) against %s failed:\n%s' % (harness, flavour, REPO, r.stdout[-6000:]))
        open(out + '.ok', 'w').write('%.1f s\n' % (time.time() - t0))
        log('[build] %s/%s in %.0f s' % (flavour, harness, time.time() - t0))
        return out


def build_c(name, src_rel, flags):
    out = os.path.join(tree_dir(), 'aux', '%s-%s' % (name, harness_hash(None)))
    with FileLock(out + '.lock'):
        if os.path.exists(out):
            return out
        r = subprocess.run(['gcc'] + flags.split() + [os.path.join(VERIF, src_rel), '-o', out, '-ldl', '-lpthread'], stdout=subprocess.PIPE, stderr=subprocess.STDOUT, text=True)
        if r.returncode != 0:
            raise HarnessFailure('compiling %s failed:\n%s' % (src_rel, r.stdout[-3000:]))
        return out


def build_many(pairs):
    """pairs: list of (harness, flavour[, extra_flags]); builds in parallel; returns dict"""
    res = {}
    errs = []

    def one(p):
        try:
            res[(p[0], p[1])] = build(*p)
        except HarnessFailure as e:
            errs.append(e)
    if pairs:
        ensure_configured('rel')
    with ThreadPoolExecutor(max_workers=max(1, min(NPROC, len(pairs) or 1))) as ex:
        list(ex.map(one, pairs))
    if errs:
        raise errs[0]
    return res


# ---------------------------------------------------------------------------------------------
# known findings
# ---------------------------------------------------------------------------------------------
def load_findings():
    p = os.path.join(VERIF, 'known_findings.json')
    if not os.path.exists(p):
        return []
    return json.load(open(p)).get('findings', [])


def match_finding(findings, prop, key, viol=None):
    """a listed finding suppresses a violation only if property and key pattern match (and, when the
    finding names an input class, the violation carries that class)"""
    for f in findings:
        if f.get('status') != 'known':
            continue
        if f.get('property') != prop:
            continue
        if not re.fullmatch(f.get('key_regex', ''), key):
            continue
        cls = f.get('requires_tag')
        if cls and viol is not None and cls not in (viol.get('tags') or []):
            continue
        return f
    return None


# ---------------------------------------------------------------------------------------------
# batch runner with crash containment and watchdog
# ---------------------------------------------------------------------------------------------
class Agg:
    """aggregated observations of one harness workload"""

    def __init__(self):
        self.evaluations = 0
        self.hashes = set()          # distinct non-trivial case hashes
        self.all_hashes = set()
        self.tags = collections.Counter()
        self.violations = []         # dicts: key, detail, case, spec_text, observed, idx, source
        self.samples = []
        self.summary = collections.Counter()
        self.summary_other = {}
        self.crashes = []            # dicts: idx, rc, stderr_tail
        self.hangs = []              # dicts: idx
        self.inconclusive = []       # strings
        self.failures = []           # harness failures (strings)
        self.lock = threading.Lock()
        self.sanitizer_reports = []  # dict(kind, text, parmcb_frame, idx)

    def merge_summary(self, d):
        for k, v in d.items():
            if isinstance(v, (int, float)) and not isinstance(v, bool):
                if k.endswith('_max'):
                    self.summary[k] = max(self.summary.get(k, 0), v)
                else:
                    self.summary[k] += v
            else:
                self.summary_other.setdefault(k, v)


def _parse_line(agg, line, source, max_samples, rerun=None):
    if not line:
        return None
    c = line[0]
    if c == 'B' and line[1:2] == ' ':
        try:
            return ('B', int(line[2:].strip()))
        except ValueError:
            return None
    if c == 'E' and line[1:2] == ' ':
        parts = line.split(' ', 2)
        try:
            idx = int(parts[1]); d = json.loads(parts[2])
        except (ValueError, IndexError):
            return None
        with agg.lock:
            agg.evaluations += 1
            agg.all_hashes.add(d.get('h'))
            if d.get('nt'):
                agg.hashes.add(d.get('h'))
            for t in d.get('tags', []):
                agg.tags[t] += 1
            for v in d.get('viol', []):
                v['idx'] = idx; v['source'] = source; v['tags'] = d.get('tags', [])
                if rerun:
                    v['rerun'] = dict(rerun, idx=idx)
                agg.violations.append(v)
            if 'sample' in d and len(agg.samples) < max_samples:
                agg.samples.append(d['sample'])
        return ('E', idx)
    if c == 'S' and line[1:2] == ' ':
        try:
            with agg.lock:
                agg.merge_summary(json.loads(line[2:]))
        except ValueError:
            pass
        return None
    if c == 'X' and line[1:2] == ' ':
        try:
            msg = json.loads(line[2:]).get('msg', '?')
        except ValueError:
            msg = line
        with agg.lock:
            agg.failures.append(msg)
        return None
    return None


SAN_RE = re.compile(r'(ERROR: AddressSanitizer|ERROR: LeakSanitizer|WARNING: ThreadSanitizer|runtime error:|AddressSanitizer:DEADLYSIGNAL|Assertion .* failed|terminate called)')


def classify_stderr(text):
    """extract sanitizer / assertion reports from a stderr blob"""
    reps = []
    if not text:
        return reps
    blocks = re.split(r'(?m)^(?==+\d+==ERROR|==================$|.*runtime error:)', text)
    for b in blocks:
        m = SAN_RE.search(b)
        if not m:
            continue
        kind = 'unknown'
        mm = re.search(r'AddressSanitizer: ([\w-]+)', b)
        if mm:
            kind = 'asan:' + mm.group(1)
        elif 'LeakSanitizer' in b:
            kind = 'lsan:leak'
        elif 'ThreadSanitizer' in b:
            mm = re.search(r'ThreadSanitizer: ([\w ]+?)(?: \(|\n)', b)
            kind = 'tsan:' + (mm.group(1).strip().replace(' ', '_') if mm else 'report')
        elif 'runtime error:' in b:
            mm = re.search(r'runtime error: ([^\n]{0,80})', b)
            kind = 'ubsan:' + re.sub(r'[^a-z ]', '', (mm.group(1) if mm else '').lower()).strip().replace(' ', '_')[:50]
        elif 'Assertion' in b:
            kind = 'assert'
        elif 'terminate called' in b:
            kind = 'terminate'
        frames = re.findall(r'#\d+ (?:0x[0-9a-f]+ )?(?:in )?([^\n]+)', b)
        pf = [f for f in frames if 'parmcb' in f]
        inner = ''
        if pf:
            inner = re.sub(r'\(.*', '', pf[0]).strip()
            inner = re.sub(r'<.*', '', inner)
        reps.append(dict(kind=kind, parmcb_frame=bool(pf) or ('include/parmcb' in b), inner=inner, text=b[:6000]))
    return reps


MEM_LIMIT_MB = int(os.environ.get('VERIF_MEM_MB', '6000'))


def _limit_as():
    # contain runaway allocations of a broken tree (e.g. a cycle-space dimension that wrapped around): the case then dies with
    # bad_alloc and is reported as a crash instead of exhausting the machine
    import resource
    try:
        resource.setrlimit(resource.RLIMIT_AS, (MEM_LIMIT_MB * 2 * 1024 * 1024, MEM_LIMIT_MB * 2 * 1024 * 1024))
    except (ValueError, OSError):
        pass


def _limit_env(env, flav):
    e = dict(env or os.environ)
    if flav == 'asan':
        e['ASAN_OPTIONS'] = (e.get('ASAN_OPTIONS', '') + ':hard_rss_limit_mb=%d:allocator_may_return_null=0' % MEM_LIMIT_MB).lstrip(':')
    elif flav == 'tsan':
        e['TSAN_OPTIONS'] = (e.get('TSAN_OPTIONS', '') + ':hard_rss_limit_mb=%d' % MEM_LIMIT_MB).lstrip(':')
    return e


CONFIRMED_HANGS = []     # sources with a confirmed hang in this process: one is enough to decide, nobody spends watchdog periods on more


def run_chunk(agg, cmd_prefix, mode, seed, a, b, opts, env, timeout, source, max_samples, hang_is_violation, wrapper=None, san_logs=None):
    """run cases [a,b) in one process; on a crash attribute it to the last begun case and resume after it"""
    cur = a
    hang_counts = {}
    if CONFIRMED_HANGS:
        with agg.lock:
            agg.inconclusive.append('%s: cases %d..%d not run (a hang was already confirmed in this run: %s)' % (source, a, b - 1, CONFIRMED_HANGS[0]))
        return
    case_budget = max(120, timeout / 3.0)      # what ONE case gets once it has been running at a watchdog firing
    parts = cmd_prefix[0].split(os.sep)
    flav = parts[-2] if len(parts) >= 2 else ''
    rerun = dict(kind='harness', harness=parts[-1].rsplit('-', 1)[0], flavour=parts[-2], mode=mode, seed=seed, opts=opts or {}, env={k: v for k, v in (env or {}).items() if k.endswith('SAN_OPTIONS')}, wrapper=wrapper or [])
    while cur < b:
        # a case that was running at two watchdog firings is run a third time alone; only three firings in a row make a hang
        b_run = cur + 1 if hang_counts.get(cur, 0) >= 2 else b
        cmd = list(wrapper or []) + list(cmd_prefix) + ['--mode', mode, '--seed', str(seed), '--from', str(cur), '--to', str(b_run), '--samples', str(max_samples)]
        for k, v in (opts or {}).items():
            cmd += ['--opt', '%s=%s' % (k, v)]
        t0 = time.time()
        try:
            p = subprocess.Popen(cmd, stdout=subprocess.PIPE, stderr=subprocess.PIPE, env=_limit_env(env, flav), text=True, errors='replace',
                                 preexec_fn=_limit_as if flav in ('plain', 'shim', 'mpi', 'cov') and not wrapper else None)
        except OSError as e:
            with agg.lock:
                agg.failures.append('cannot start %s: %s' % (cmd[0], e))
            return
        last_b = None; last_e = None
        flag = {'t': False}

        def _kill(p=p, flag=flag):
            flag['t'] = True
            try:
                p.kill()
            except OSError:
                pass
        timer = threading.Timer(timeout if b_run == b else case_budget, _kill)
        timer.start()
        # strike 2: the suspect case is the first of the restarted chunk and must finish within the per-case budget
        timer1 = threading.Timer(case_budget, _kill) if (hang_counts.get(cur, 0) == 1) else None
        if timer1:
            timer1.start()
        first = cur
        errbuf = []
        th = threading.Thread(target=lambda: errbuf.append(p.stderr.read()))
        th.start()
        try:
            for line in p.stdout:
                r = _parse_line(agg, line.rstrip('\n'), source, max_samples, rerun)
                if r:
                    if r[0] == 'B':
                        last_b = r[1]
                    else:
                        last_e = r[1]
                        if timer1 and last_e == first:
                            timer1.cancel()
        finally:
            rc = p.wait()
            timer.cancel()
            if timer1:
                timer1.cancel()
            timed_out = flag['t']
            th.join()
        err = errbuf[0] if errbuf else ''
        if rc == 0:
            if err and SAN_RE.search(err):
                with agg.lock:
                    for rep in classify_stderr(err):
                        rep['idx'] = last_e; rep['source'] = source; rep['chunk'] = [cur, b]
                        agg.sanitizer_reports.append(rep)
            if b_run < b:
                with agg.lock:
                    agg.inconclusive.append('%s: case %d exceeded the watchdog twice inside a chunk but finished when run alone' % (source, cur))
                cur = b_run
                continue
            return
        failing = last_b if (last_b is not None and last_b != last_e) else None
        if timed_out:
            if failing is None:
                with agg.lock:
                    agg.inconclusive.append('%s: watchdog fired outside a case (cases %d..%d)' % (source, cur, b))
                return
            hang_counts[failing] = hang_counts.get(failing, 0) + 1
            if CONFIRMED_HANGS and hang_counts[failing] < 3:
                with agg.lock:
                    agg.inconclusive.append('%s: watchdog fired at case %d; cases %d..%d not pursued (a hang was already confirmed in this run: %s)' % (source, failing, failing, b - 1, CONFIRMED_HANGS[0]))
                return
            if hang_counts[failing] >= 3:
                CONFIRMED_HANGS.append(source)
                with agg.lock:
                    if hang_is_violation:
                        agg.hangs.append(dict(idx=failing, source=source, rerun=dict(rerun, idx=failing)))
                    else:
                        agg.inconclusive.append('%s: case %d exceeded the watchdog three times (the last time alone)' % (source, failing))
                    if failing + 1 < b:
                        # one confirmed hang decides the run; the rest of this chunk is not worth three watchdog periods per case
                        agg.inconclusive.append('%s: cases %d..%d not run (chunk abandoned after the confirmed hang of case %d)' % (source, failing + 1, b - 1, failing))
                return
            cur = failing
            continue
        if rc == 2 and failing is None:
            with agg.lock:
                if not agg.failures:
                    agg.failures.append('%s exited 2: %s' % (source, err[-800:]))
            return
        # crash / sanitizer abort / uncaught exception
        reps = classify_stderr(err)
        with agg.lock:
            if reps:
                for rep in reps:
                    rep['idx'] = failing; rep['rc'] = rc; rep['source'] = source; rep['rerun'] = dict(rerun, idx=failing)
                    agg.sanitizer_reports.append(rep)
            else:
                agg.crashes.append(dict(idx=failing, rc=rc, source=source, stderr_tail=err[-3000:], rerun=dict(rerun, idx=failing)))
        if failing is None:
            return
        cur = failing + 1


def run_cases(binary, mode, seed, total, opts=None, env=None, nproc=None, chunk=None, timeout=600, source=None,
              max_samples=3, hang_is_violation=True, wrapper=None, agg=None, start=0):
    agg = agg or Agg()
    if binary.startswith('/skipped/'):
        return agg
    nproc = nproc or NPROC
    source = source or (os.path.basename(binary).split('-')[0] + ':' + mode)
    if chunk is None:
        chunk = max(1, (total + nproc * 3 - 1) // (nproc * 3))
    chunks = [(a, min(a + chunk, start + total)) for a in range(start, start + total, chunk)]
    e = dict(os.environ)
    e.update(env or {})
    with ThreadPoolExecutor(max_workers=nproc) as ex:
        futs = [ex.submit(run_chunk, agg, [binary], mode, seed, a, b, opts, e, timeout, source, max_samples, hang_is_violation, wrapper) for a, b in chunks]
        for f in futs:
            f.result()
    return agg


# ---------------------------------------------------------------------------------------------
# verdicts, replay files, evidence
# ---------------------------------------------------------------------------------------------
def safe(s):
    return re.sub(r'[^A-Za-z0-9_.-]+', '_', s)[:80]


# property -> (harness, [(mode, cases, opts)]) used for the gcov reach evidence in the thorough tier
COV_PLAN = {
    'C01': ('h_exact', [('c01', 120, dict(max_n=24, large=0))]),
    'C02': ('h_exact', [('c02', 120, dict(max_n=24, large=0))]),
    'C03': ('h_sched', [('c03real', 40, dict(max_n=18, schedules=1))]),
    'C05': ('h_approx', [('c05', 150, dict(max_n=22))]),
    'C06': ('h_approx', [('c06', 150, dict(max_n=22))]),
    'C08': ('h_exact', [('c08', 3, dict(min_n=30, max_n=60, variants_per_xform=1))]),
    'C09': ('h_exact', [('c09', 100, dict(max_n=20))]),
    'C10': ('h_dimacs', [('c10', 2000, {})]),
    'C12': ('h_parts', [('c12', 60, dict(max_n=14, large=0))]),
    'C13': ('h_parts', [('c13', 300, dict(max_n=60, large=0))]),
    'C14': ('h_parts', [('c14', 80, dict(max_n=20, large=0))]),
    'C15': ('h_approx', [('c15', 200, dict(max_n=24))]),
    'C16': ('h_parts', [('c16', 500, dict(max_n=30, large=0))]),
    'C17': ('h_vec', [('c17', 500, {})]),
    'C18': ('h_vec', [('c18gcd', 140, {}), ('c18inv', 60, {}), ('c18prime', 5, dict(blocks=4, cpp_blocks=1)), ('c18vec', 300, {})]),
}


class Verdict:
    def __init__(self, prop, tier, seed):
        self.prop = prop; self.tier = tier; self.seed = seed
        self.findings = load_findings()
        self.new = collections.OrderedDict()     # key -> list of violations
        self.known = collections.OrderedDict()   # finding id -> (finding, count)
        self.t0 = time.time()
        self.failures = []
        self.inconclusive = []

    def add(self, key, viol):
        f = match_finding(self.findings, self.prop, key, viol)
        if f:
            k = f.get('id', f.get('key_regex'))
            self.known.setdefault(k, [f, 0])[1] += 1
        else:
            self.new.setdefault(key, []).append(viol)

    def absorb(self, agg, sanitizer_decides=False, functional=True):
        """take the observations of one workload"""
        if functional:
            for v in agg.violations:
                self.add(v['key'], v)
            for h in agg.hangs:
                self.add('hang:' + h['source'], dict(key='hang', detail='case %s did not finish within the watchdog three times in a row (the third time run alone); the other cases of the same workload take milliseconds' % h['idx'], idx=h['idx'], source=h['source'], rerun=h.get('rerun')))
        for c in agg.crashes:
            self.add('crash:%s:rc=%s' % (c['source'], c['rc']), dict(key='crash', detail='process died with status %s' % c['rc'], idx=c['idx'], source=c['source'], observed=dict(stderr_tail=c['stderr_tail']), rerun=c.get('rerun')))
        for r in agg.sanitizer_reports:
            if r.get('parmcb_frame') or r['kind'].startswith(('asan', 'ubsan', 'assert', 'terminate')):
                self.add('sanitizer:%s:%s' % (r['kind'], r.get('inner', '')[:60]), dict(key=r['kind'], detail='sanitizer / assertion report', idx=r.get('idx'), source=r.get('source'), observed=dict(report=r['text']), rerun=r.get('rerun')))
        self.failures += agg.failures
        self.inconclusive += agg.inconclusive

    def finish(self, coverage, assumptions, level='exploration', replay_extra=None):
        if self.tier == 'thorough' and self.prop in COV_PLAN and not os.environ.get('VERIF_NO_COV'):
            try:
                h, runs = COV_PLAN[self.prop]
                hits = anchor_coverage(self.prop, h, runs)
                coverage = dict(coverage, anchor_hits=hits, anchors_never_executed=[k for k, d in hits.items() if isinstance(d, dict) and d.get('lines_executed') == 0],
                                anchor_note='gcov (-O0 --coverage build) execution counts of the source ranges named by the property\'s anchors, line numbers mapped from the pinned snapshot to the current tree; a range with zero executed lines means that mechanism was NOT exercised by this harness (inconclusive for it)')
            except HarnessFailure as e:
                coverage = dict(coverage, anchor_hits={'error': str(e)[:300]})
        wall = time.time() - self.t0
        nviol = sum(len(v) for v in self.new.values())
        os.makedirs(os.path.join(OUT, 'evidence'), exist_ok=True)
        cov = dict(coverage)
        cov['known_findings_hit'] = {k: v[1] for k, v in self.known.items()}
        cov['new_violation_keys'] = {k: len(v) for k, v in self.new.items()}
        cov['inconclusive'] = self.inconclusive[:20]
        cov['inconclusive_count'] = len(self.inconclusive)
        cov['tree_hash'] = tree_hash()
        cov['repo'] = REPO
        ev = dict(property_id=self.prop, tier=self.tier, seed=self.seed, level=level, coverage=cov, assumptions=assumptions,
                  wall_s=round(wall, 2), violations=nviol)
        if self.failures:
            ev['coverage']['harness_failures'] = self.failures[:5]
        with open(os.path.join(OUT, 'evidence', self.prop + '.json'), 'w') as f:
            json.dump(ev, f, indent=1, sort_keys=True, default=str)
        for k, (f, n) in self.known.items():
            print('KNOWN-FINDING: property=%s %s (observed %d times in this run)' % (self.prop, f.get('what', k), n))
        if not self.failures and not self.new and cov.get('distinct_nontrivial', 0) < 2:
            self.failures.append('the run observed fewer than 2 distinct non-trivial cases: nothing was decided')
        if self.failures:
            for m in self.failures[:5]:
                print('HARNESS-FAILURE property=%s %s' % (self.prop, m))
            sys.stdout.flush()
            return 2
        rc = 0
        for key, vs in self.new.items():
            rc = 1
            d = os.path.join(OUT, 'replays', self.prop)
            os.makedirs(d, exist_ok=True)
            for v in vs[:2]:
                path = os.path.join(d, '%s-%s.json' % (safe(key), v.get('idx')))
                rec = dict(property=self.prop, key=key, tier=self.tier, seed=self.seed, repo=REPO, tree_hash=tree_hash(), violation=v)
                if replay_extra:
                    rec.update(replay_extra)
                with open(path, 'w') as f:
                    json.dump(rec, f, indent=1, default=str)
                print('VIOLATION property=%s replay=%s' % (self.prop, path))
            print('  key=%s occurrences=%d first: %s' % (key, len(vs), (vs[0].get('detail') or '')[:300]))
        if rc == 0 and not self.new:
            total = cov.get('evaluations', 0)
            print('OK property=%s tier=%s seed=%s evaluations=%s distinct_nontrivial=%s wall=%.0fs' % (self.prop, self.tier, self.seed, total, cov.get('distinct_nontrivial'), wall))
        sys.stdout.flush()
        return rc


def base_coverage(agg, rule, extra=None):
    cov = dict(evaluations=agg.evaluations, distinct_nontrivial=len(agg.hashes), distinct_cases=len(agg.all_hashes), rule=rule,
               samples=agg.samples[:6], tallies=dict(agg.tags.most_common(60)), harness_summary=dict(agg.summary))
    if extra:
        cov.update(extra)
    return cov


# ---------------------------------------------------------------------------------------------
# reach evidence: gcov execution counts of the source ranges a property is anchored in (thorough tier)
# ---------------------------------------------------------------------------------------------
def _anchor_ranges(prop):
    """[(basename, first, last, label)] parsed from the 'where' fields of the property's anchors (line numbers of the pinned snapshot)"""
    out = []
    for l in open(os.path.join(VERIF, 'properties.jsonl')):
        p = json.loads(l)
        if p['id'] != prop:
            continue
        items = list(p['anchors'].get('mechanism', [])) + list(p['anchors'].get('state', []))
        for it in items:
            for m in re.finditer(r'([\w/.-]+\.(?:hpp|cpp)):(\d+)(?:-(\d+))?((?:,\d+(?:-\d+)?)*)', it.get('where', '')):
                f = os.path.basename(m.group(1))
                spans = [(int(m.group(2)), int(m.group(3) or m.group(2)))]
                for extra in re.findall(r',(\d+)(?:-(\d+))?', m.group(4) or ''):
                    spans.append((int(extra[0]), int(extra[1] or extra[0])))
                for a, b in spans:
                    out.append((f, a, b, '%s:%d-%d' % (f, a, b)))
    return out


def _line_map(relpath):
    """old (pinned snapshot) line number -> current line number, via difflib on the two versions"""
    import difflib
    try:
        base = subprocess.run(['git', '-C', '/repo', 'rev-list', '--max-parents=0', 'HEAD'], stdout=subprocess.PIPE, text=True).stdout.split()[0]
        old = subprocess.run(['git', '-C', '/repo', 'show', '%s:%s' % (base, relpath)], stdout=subprocess.PIPE, text=True).stdout.splitlines()
        new = open(os.path.join(REPO, relpath)).read().splitlines()
    except Exception:
        return None
    mp = {}
    for tag, i1, i2, j1, j2 in difflib.SequenceMatcher(None, old, new, autojunk=False).get_opcodes():
        if tag == 'equal':
            for k in range(i2 - i1):
                mp[i1 + k + 1] = j1 + k + 1
    return mp


def anchor_coverage(prop, harness, runs, flavour='cov'):
    """runs: list of (mode, ncases, opts).  Returns {label: {lines_with_code, lines_executed, max_count}} for every anchored range."""
    ranges = _anchor_ranges(prop)
    if not ranges:
        return {}
    b = build(harness, flavour)
    gcda = b + '.gcda'
    for f in (gcda,):
        if os.path.exists(f):
            os.unlink(f)
    for mode, n, opts in runs:
        run_cases(b, mode, 424242, n, opts=opts, nproc=4, timeout=3600, source='cov')
    if not os.path.exists(gcda):
        return {'error': 'no coverage data produced'}
    r = subprocess.run(['gcov', '--json-format', '--stdout', '-o', os.path.dirname(b), b + '.o'], stdout=subprocess.PIPE, stderr=subprocess.DEVNULL, cwd=os.path.dirname(b))
    counts = {}   # basename -> {line: count}
    paths = {}
    for line in r.stdout.decode(errors='replace').splitlines():
        try:
            d = json.loads(line)
        except ValueError:
            continue
        for f in d.get('files', []):
            fn = f.get('file', '')
            if 'parmcb' not in fn:
                continue
            bn = os.path.basename(fn)
            paths[bn] = fn
            c = counts.setdefault(bn, {})
            for ln in f.get('lines', []):
                c[ln['line_number']] = c.get(ln['line_number'], 0) + ln.get('count', 0)
    out = {}
    for bn, a, e, label in ranges:
        c = counts.get(bn)
        if c is None:
            out[label] = dict(lines_with_code=0, lines_executed=0, max_count=0, note='file not instantiated by this harness')
            continue
        rel = None
        fn = paths.get(bn, '')
        if '/include/' in fn:
            rel = 'include/' + fn.split('/include/', 1)[1]
        mp = _line_map(rel) if rel else None
        lines = []
        for old in range(a, e + 1):
            new = mp.get(old) if mp else old
            if new is not None and new in c:
                lines.append(c[new])
        out[label] = dict(lines_with_code=len(lines), lines_executed=len([x for x in lines if x > 0]), max_count=max(lines) if lines else 0)
    try:
        os.unlink(gcda)
    except OSError:
        pass
    return out
