#!/usr/bin/env python3
"""Writes /verif/MANIFEST.json from the table below (kept next to the checks so the two cannot drift)."""
import json, os, subprocess, sys

VERIF = os.path.dirname(os.path.dirname(os.path.abspath(__file__)))

P = {
    'C01': dict(tech='runtime monitoring: structural-invariant monitor (simple cycle / caller\'s graph / GF(2) rank / count) on generated graphs + ASan/UBSan build with library asserts on',
                text='Every cycle list emitted by the three sequential exact entry points on thousands of generated graphs (all families, double and int weights) is validated after return by an independent monitor; a slice re-runs under ASan+UBSan with the library\'s own asserts enabled.',
                note='Sampling of the input space up to n=40 (quick) / 80 (thorough); the monitor (union-find, bitset Gaussian elimination) is trusted.', ref='DESIGN.md §4 C01'),
    'C02': dict(tech='runtime monitoring: reference-model oracle (Horton candidates + GF(2) Gaussian elimination, self-validated against brute force) on tie-rich generated graphs',
                text='Returned value, emitted weight and the sorted cycle-weight vector are compared in exact integers with an independent optimum oracle on tie-rich generated graphs; the oracle is re-validated against brute-force cycle enumeration in every process.',
                note='Oracle correctness (cross-checked each run); exactly summable weights; n <= 30/80.', ref='DESIGN.md §4 C02'),
    'C03': dict(tech='runtime monitoring: schedule injection through an instrumented TBB shim (seeded legal partitions / run groupings / join trees) + ThreadSanitizer on real threads',
                text='The six TBB entry points are compiled unmodified against a replacement scheduler that draws a random legal execution of every parallel_for / parallel_reduce / concurrent push_back; results are checked against the oracle and the sequential variants under many schedules per graph, and a fully instrumented threaded mode runs under ThreadSanitizer.',
                note='The shim implements oneTBB\'s documented execution space, not oneTBB itself; real oneTBB is additionally sampled functionally.', ref='DESIGN.md §3.4, §4 C03'),
    'C04': dict(tech='runtime monitoring: configuration sweep under mpiexec (rank counts 1..16) with per-rank heap-layout injection (scrambling operator new), per-rank progress markers and watchdog',
                text='All five MPI entry points run inside real mpiexec jobs for eight communicator sizes on generated graphs while each rank builds the same graph under a differently seeded allocator; rank 0\'s basis is validated against the oracle, other ranks must emit nothing and every rank must log RETURN.',
                note='Single host, OpenMPI shared-memory transport; termination judged by a generous watchdog with one automatic re-run.', ref='DESIGN.md §3.5, §4 C04'),
    'C05': dict(tech='runtime monitoring: structural-invariant monitor after return (descriptor property-pointer identity with the caller\'s graph, basis validity, returned == true weight) + ASan use-after-return probe',
                text='Approximate entry points run on graphs biased to girth > 2k so that cycles originate from the exact phase; every returned descriptor is shown to belong to the caller\'s graph before it is used, and an ASan build dereferences each one through the caller\'s weight map after the algorithm object is gone.',
                note='Sampling; spanner dimension read through the PARMCB_VERIF hook only to count non-trivial cases.', ref='DESIGN.md §4 C05'),
    'C06': dict(tech='runtime monitoring: reference-model oracle (exact optimum) bounding the emitted weight; counting output iterator for the k=0 rejection',
                text='Emitted weight <= (2k-1)*OPT and == OPT for k=1 in exact integers on generated graphs including adversarial weight patterns; k=0 must throw and leave a counting iterator untouched.',
                note='Oracle; basis validity is delegated to C05.', ref='DESIGN.md §4 C06'),
    'C07': dict(tech='sanitizers: AddressSanitizer+UndefinedBehaviorSanitizer+LeakSanitizer builds (libstdc++ and library assertions on) of every harness and of the demo programs, ThreadSanitizer on the shim, valgrind memcheck slices',
                text='Every harness workload (exact, approximate, components, vectors, DIMACS reader, demos) is repeated on sanitizer builds; any report with a parmcb frame is a violation. Returned descriptors are dereferenced after return.',
                note='Red-zone tools miss intra-object overflows; references to temporaries of the stateless vertex-index map are unobservable (DESIGN §4 C07).', ref='DESIGN.md §4 C07'),
    'C08': dict(tech='runtime monitoring: metamorphic relations (variant agreement, relabelling, edge order, heap layout via scrambling allocator, isolated/pendant/bridge, disjoint union, subdivision, power-of-two scaling) at 30-400 vertices',
                text='Six exact variants must agree on each large generated graph and the value must transform exactly as the relations demand on ten transformed copies, including copies whose edge-property addresses were permuted.',
                note='Necessary conditions only (no optimum oracle at this scale); optimum is anchored by C02 on small graphs.', ref='DESIGN.md §4 C08'),
    'C09': dict(tech='runtime monitoring: reference-model oracle in exact rational (integer-unit) arithmetic on graphs with decimal and full-mantissa double weights',
                text='All six exact variants on weights whose sums are inexact in double: basis validity, returned vs exact emitted sum, emitted vs optimum within relative 1e-9. The isometric-tree variants fail (known finding F-C09-iso-inexact); every other variant and every other failure kind stays monitored.',
                note='Known finding suppresses only the two ISO variants\' empty-cycle / non-minimal keys.', ref='DESIGN.md §4 C09, §6'),
    'C10': dict(tech='runtime monitoring: generator-side reference model of DIMACS texts (fmemopen) + definitions of the validators; ASan slice on the fgets/sscanf code',
                text='Generated DIMACS texts covering comments anywhere, e/a lines, weight forms, presence/absence of the trailing newline, every kind of last line and undeclared vertices are read by the real reader and compared field by field; the three validators are compared with their definitions on random multigraphs.',
                note='Lines below the 1024-byte buffer.', ref='DESIGN.md §4 C10'),
    'C11': dict(tech='runtime monitoring: process-level monitor (exit status, stdout/stderr, termination watchdog) over the demo executables built by the tree\'s own CMake, incl. mpiexec -n P',
                text='Generated valid and invalid DIMACS files are fed to all four demos under every option combination; invalid input must be rejected on all ranks with non-zero status and no result line, valid input must print the oracle optimum (approximate demo: within the bound).',
                note='Watchdog firing is re-run once; only a reproduced hang is a violation.', ref='DESIGN.md §4 C11'),
    'C12': dict(tech='runtime monitoring: reference model (exact Dijkstra) + structural invariants over all ordered vertex pairs (path symmetry, sub-path optimality, child lists, first-in-path)',
                text='SPTree objects for every source of tie-saturated generated graphs are walked completely and compared with exact distances and with each other.',
                note='n <= 16/40.', ref='DESIGN.md §4 C12'),
    'C13': dict(tech='runtime monitoring: invariant monitor (union-find acyclicity of the remainder, distinctness) on generated graphs up to 200 vertices + ASan slice',
                text='greedy_fvs output is checked on every generated graph, with families that force repeated clean-up rounds.', note='Simple graphs.', ref='DESIGN.md §4 C13'),
    'C14': dict(tech='runtime monitoring: structural invariants per candidate + reference-model sufficiency check (greedy GF(2) over each collection vs oracle optimum)',
                text='Every candidate of the Horton, FVS and ISO collections is unfolded and checked; nesting by (root, edge); sufficiency against the oracle.', note='Oracle.', ref='DESIGN.md §4 C14'),
    'C15': dict(tech='runtime monitoring: invariant monitor at a hook (PARMCB_VERIF accessors) cross-checked by a spy exact phase; BFS hop-stretch and girth oracles',
                text='The internal spanner is inspected through guarded read-only accessors on generated (graph,k) incl. girth-critical cases; a spy ExactAlgorithm confirms the accessors show what the algorithm really uses.',
                note='Hook accessors.', ref='DESIGN.md §3.2, §4 C15'),
    'C16': dict(tech='runtime monitoring: invariant monitor (bijection, inverses, union-find spanning forest) with heap-layout injection', text='ForestIndex checked on all generated graphs incl. degenerate ones, half of them under scrambled edge addresses.', note='-', ref='DESIGN.md §4 C16'),
    'C17': dict(tech='runtime monitoring: lock-step dense reference model over random operation histories + ASan/UBSan slice with libstdc++ assertions',
                text='After every operation of random histories every live SpVecGF2 is compared with a dense bit vector.', note='SpVecGF2::add not exercised (outside the property).', ref='DESIGN.md §4 C17'),
    'C18': dict(tech='runtime monitoring: reference arithmetic (cpp_int / __int128 / Miller-Rabin) with exhaustively enumerated small sub-domains and random large operands; dense mod-p model for SpVecFP histories; UBSan slice',
                text='ext_gcd, get_mult_inverse and is_prime are swept exhaustively on small domains for int, long long and cpp_int and sampled on large operands; SpVecFP histories are compared with a dense model.',
                note='Built-in operands kept where the result is representable.', ref='DESIGN.md §4 C18'),
    'C20': dict(tech='runtime monitoring: process-level observation of tbb::global_control::active_value and of task-executing thread identities (instrumented weight map), pthread_create counting via LD_PRELOAD on the demos',
                text='After each call of random set_global_tbb_concurrency sequences the active limit must equal n; the number of distinct threads evaluating weights and the number of threads the demos create are bounded by n.',
                note='Thread-identity bound applied only before any larger limit was in force in the process.', ref='DESIGN.md §4 C20'),
}

NOT_APPLICABLE = {
    'C19': 'Decided purely by compiler and linker exit status on generated programs; there is no execution for a runtime monitor or sanitizer to observe (DESIGN.md §4 C19).',
}


def main():
    sys.path.insert(0, os.path.join(VERIF, 'vp'))
    import check
    built = set(check.CHECKS.keys())
    checks = []
    na = [dict(property_id=k, reason=v) for k, v in NOT_APPLICABLE.items()]
    for pid in sorted(P):
        if pid not in built:
            na.append(dict(property_id=pid, reason='check not built yet in this tree (work in progress; planned technique: %s)' % P[pid]['tech'][:120]))
            continue
        d = P[pid]
        checks.append(dict(property_id=pid, quick_cmd='python3 vp/check.py %s --tier quick' % pid, thorough_cmd='python3 vp/check.py %s --tier thorough' % pid,
                           evidence_file='/verif/evidence/%s.json' % pid, replay_cmd_template='python3 vp/check.py %s --replay {path}' % pid, engine='vp',
                           level_claimed=dict(category='exploration', text=d['text'], design_ref=d['ref']), level_note=d['note'], technique=d['tech']))
    repo_commits = subprocess.run(['git', '-C', '/repo', 'log', '--format=%h %s'], stdout=subprocess.PIPE, text=True).stdout.splitlines()
    hook_commits = [l.split()[0] for l in repo_commits if l.split(' ', 1)[1].startswith('verif hook')]
    m = dict(version=1,
             setup_cmd='python3 vp/check.py build-all',
             hooks=dict(guard='PARMCB_VERIF', enable='every harness is compiled with -DPARMCB_VERIF (vp/lib.py build()); the guarded code is four read-only accessors on BaseApproxSpannerAlgorithm',
                        baseline_off_cmd='cmake -S /repo -B /repo/_build -G Ninja -DCMAKE_BUILD_TYPE=RelWithDebInfo -DCMAKE_CXX_FLAGS=-Wno-error >/dev/null && cmake --build /repo/_build && ctest --test-dir /repo/_build -j8 --timeout 900',
                        source_commits=hook_commits, add_only=True),
             engines=[dict(name='vp', path='/verif/vp/check.py', serves_properties=sorted(built), kind_free_text='python driver + single-TU C++ harnesses (harness/*.cpp) compiled against /repo\'s working tree in plain / ASan+UBSan / TBB-shim / TSan / MPI flavours')],
             checks=checks, not_applicable=sorted(na, key=lambda x: x['property_id']),
             notes='All checks honour VERIF_SEED and VERIF_TIER, rebuild from /repo\'s current working tree (content-hash cache under /verif/build), exit 0/1/2 (2 = harness failure). Known findings: /verif/known_findings.json.')
    json.dump(m, open(os.path.join(VERIF, 'MANIFEST.json'), 'w'), indent=1)
    print('MANIFEST.json: %d checks, %d not applicable' % (len(checks), len(na)))


if __name__ == '__main__':
    main()
