"""Process-level monitor for MPI jobs: launches mpiexec, reads the per-rank marker files, decides
termination with a generous watchdog (one automatic re-run; gdb stack dumps as witness)."""
import os, subprocess, time, tempfile, shutil, json, re, signal
import lib

MPIEXEC = ['mpiexec', '--allow-run-as-root', '--oversubscribe', '--mca', 'mpi_yield_when_idle', '1', '--mca', 'btl_base_warn_component_unused', '0']


def _read_ranks(prefix, P):
    """returns per-rank list of marker tuples and rank-0 protocol lines"""
    ranks = []
    for r in range(P):
        p = '%s.rank%d' % (prefix, r)
        lines = []
        try:
            with open(p, errors='replace') as f:
                lines = f.read().splitlines()
        except OSError:
            pass
        ranks.append(lines)
    return ranks


def _stacks(pattern):
    """gdb stack dumps of the processes of a hung job (witness only)"""
    out = []
    try:
        pids = subprocess.run(['pgrep', '-f', pattern], stdout=subprocess.PIPE, text=True).stdout.split()
        for pid in pids[:4]:
            try:
                wchan = open('/proc/%s/wchan' % pid).read()
            except OSError:
                wchan = '?'
            g = subprocess.run(['gdb', '-batch', '-p', pid, '-ex', 'thread apply all bt 12'], stdout=subprocess.PIPE, stderr=subprocess.DEVNULL, text=True, timeout=60).stdout
            frames = [l for l in g.splitlines() if l.startswith('#') or l.startswith('Thread')]
            out.append(dict(pid=pid, wchan=wchan, stack='\n'.join(frames[:40])))
    except Exception as e:
        out.append(dict(error=str(e)))
    return out


def run_job(cmd, P, timeout, tag, env=None):
    """run one mpiexec job; returns (rc, timed_out, stacks)"""
    p = subprocess.Popen(MPIEXEC + (['-x', 'ASAN_OPTIONS', '-x', 'UBSAN_OPTIONS', '-x', 'LSAN_OPTIONS'] if env else []) + ['-n', str(P)] + cmd, stdout=subprocess.PIPE, stderr=subprocess.STDOUT, text=True, start_new_session=True, env=env)
    try:
        out, _ = p.communicate(timeout=timeout)
        return p.returncode, False, [], out
    except subprocess.TimeoutExpired:
        stacks = _stacks(tag)
        try:
            os.killpg(p.pid, signal.SIGKILL)
        except OSError:
            pass
        try:
            out, _ = p.communicate(timeout=30)
        except Exception:
            out = ''
        subprocess.run(['pkill', '-9', '-f', tag], stdout=subprocess.DEVNULL, stderr=subprocess.DEVNULL)
        return -9, True, stacks, out


def run_mpi_cases(agg, binary, seed, P, a, b, opts, timeout, source, entries, max_samples=2, hang_rerun=True, env=None):
    """cases [a,b) inside mpiexec -n P jobs; a job that dies or hangs is attributed to the (case, entry) whose ENTER has no RETURN"""
    cur = a
    rerun_at = None
    if lib.FAST:   # mutation sweeps: a hanging mutant should not cost two full watchdogs per job
        timeout = min(timeout, 90); hang_rerun = False
    while cur < b:
        d = tempfile.mkdtemp(prefix='mpi-', dir=os.path.join(lib.tree_dir()))
        prefix = os.path.join(d, 'r')
        cmd = [binary, '--seed', str(seed), '--from', str(cur), '--to', str(b), '--samples', str(max_samples), '--opt', 'out=' + prefix]
        for k, v in (opts or {}).items():
            cmd += ['--opt', '%s=%s' % (k, v)]
        rc, timed_out, stacks, out = run_job(cmd, P, timeout, prefix, env=env)
        if env and out and lib.SAN_RE.search(out):
            with agg.lock:
                for rep in lib.classify_stderr(out):
                    rep['idx'] = cur; rep['source'] = source
                    agg.sanitizer_reports.append(rep)
        ranks = _read_ranks(prefix, P)
        shutil.rmtree(d, ignore_errors=True)
        last_b = last_e = None
        for line in ranks[0] if ranks else []:
            r = lib._parse_line(agg, line, source, max_samples, dict(kind='mpi', ranks=P, seed=seed, opts=opts or {}))
            if r:
                if r[0] == 'B':
                    last_b = r[1]
                else:
                    last_e = r[1]
        done = all(l and l[-1] == 'DONE' for l in ranks)
        if rc == 0 and done:
            return
        # which (case, entry) is open on which rank?
        open_calls = {}
        for rk, lines in enumerate(ranks):
            cur_open = None
            for l in lines:
                if l.startswith('M '):
                    parts = l.split(' ', 4)
                    if parts[3] == 'ENTER':
                        cur_open = (int(parts[1]), parts[2])
                    elif parts[3] == 'RETURN':
                        cur_open = None
            if cur_open:
                open_calls[rk] = cur_open
        failing = last_b if (last_b is not None and last_b != last_e) else None
        entry = None
        if open_calls:
            entry = sorted(open_calls.values())[0][1]
        with agg.lock:
            if agg.failures and rc != 0 and failing is None:
                return
        if failing is None:
            with agg.lock:
                agg.inconclusive.append('%s: job with %d ranks ended rc=%s outside a case: %s' % (source, P, rc, (out or '')[-300:]))
            return
        if timed_out:
            if hang_rerun and rerun_at != failing:
                rerun_at = failing
                cur = failing
                continue
            with agg.lock:
                agg.violations.append(dict(key='%s:hang' % (entry or 'mpi_job'), detail='job with %d ranks did not finish within the %ds watchdog twice; ranks still inside a call: %s' % (P, timeout, json.dumps({str(k): list(v) for k, v in open_calls.items()})),
                                           case=dict(ranks=P, case=failing, entry=entry, opts=opts), spec_text='seed=%s case=%s' % (seed, failing), observed=dict(open_calls={str(k): list(v) for k, v in open_calls.items()}, stacks=stacks), idx=failing, source=source, tags=['P=%d' % P], rerun=dict(kind='mpi', ranks=P, seed=seed, opts=opts or {}, idx=failing)))
            return   # one reproduced hang per job stream is witness enough; every further case would cost two more watchdogs
        else:
            with agg.lock:
                agg.violations.append(dict(key='%s:crash' % (entry or 'mpi_job'), detail='job with %d ranks died with status %s while ranks were inside %s' % (P, rc, json.dumps({str(k): list(v) for k, v in open_calls.items()})),
                                           case=dict(ranks=P, case=failing, entry=entry, opts=opts), spec_text='seed=%s case=%s' % (seed, failing), observed=dict(output_tail=(out or '')[-1500:]), idx=failing, source=source, tags=['P=%d' % P], rerun=dict(kind='mpi', ranks=P, seed=seed, opts=opts or {}, idx=failing)))
        cur = failing + 1
