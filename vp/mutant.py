#!/usr/bin/env python3
"""Self-test helper: apply a patch to a scratch copy of /repo (outside /repo and /verif), run the given checks
against it with VERIF_REPO, report which fired, and delete the copy together with its build output.
usage: vp/mutant.py <patch.diff> <ID> [<ID> ...] [--tier quick] [--seed N] [--keep]"""
import os, sys, subprocess, tempfile, shutil, json, time

VERIF = os.path.dirname(os.path.dirname(os.path.abspath(__file__)))


def main():
    args = sys.argv[1:]
    tier = 'quick'; seed = '1'; keep = False; ids = []; patch = None
    i = 0
    while i < len(args):
        a = args[i]
        if a == '--tier': tier = args[i + 1]; i += 1
        elif a == '--seed': seed = args[i + 1]; i += 1
        elif a == '--keep': keep = True
        elif patch is None: patch = os.path.abspath(a)
        else: ids.append(a)
        i += 1
    scratch = tempfile.mkdtemp(prefix='parmcb-mut-', dir='/tmp')
    try:
        repo = os.path.join(scratch, 'repo')
        subprocess.check_call(['rsync', '-a', '--exclude', '_build', '--exclude', '.git', '/repo/', repo + '/'])
        r = subprocess.run(['patch', '-p1', '-d', repo, '-i', patch], stdout=subprocess.PIPE, stderr=subprocess.STDOUT, text=True)
        if r.returncode != 0:
            print('PATCH FAILED\n' + r.stdout); return 2
        env = dict(os.environ, VERIF_REPO=repo, VERIF_BUILD=os.path.join(scratch, 'build'), VERIF_OUT=os.path.join(scratch, 'out'), VERIF_SEED=seed)
        res = {}
        for pid in ids:
            t0 = time.time()
            p = subprocess.run([sys.executable, os.path.join(VERIF, 'vp/check.py'), pid, '--tier', tier], cwd=VERIF, env=env, stdout=subprocess.PIPE, stderr=subprocess.STDOUT, text=True)
            lines = [l for l in p.stdout.splitlines() if not l.startswith('[build]')]
            keys = [l.strip() for l in lines if l.strip().startswith('key=')]
            res[pid] = dict(rc=p.returncode, wall=round(time.time() - t0), keys=keys[:6])
            print('%s rc=%d (%ds)' % (pid, p.returncode, time.time() - t0))
            for l in (keys[:6] if keys else lines[-4:]):
                print('    ' + l[:260])
        print('RESULT ' + json.dumps({k: v['rc'] for k, v in res.items()}))
        return 0
    finally:
        if not keep:
            shutil.rmtree(scratch, ignore_errors=True)


if __name__ == '__main__':
    sys.exit(main())
