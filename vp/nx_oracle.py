"""run under python3-vt: reads JSON lines {graph:{n,edges_u_v_units},dim,opt_units} on stdin, recomputes the minimum cycle basis
weight with networkx.minimum_cycle_basis and prints a JSON summary (compared, disagreements)."""
import sys, json
import networkx as nx
cmp_n = 0; bad = []
for line in sys.stdin:
    d = json.loads(line)
    g = d['graph']
    G = nx.Graph(); G.add_nodes_from(range(g['n']))
    for u, v, w in g['edges_u_v_units']:
        G.add_edge(u, v, weight=w)
    tot = 0; cnt = 0
    for cyc in nx.minimum_cycle_basis(G, weight='weight'):
        cnt += 1
        if len(cyc) and cyc[0] != cyc[-1]:
            nodes = list(cyc)
            # networkx >= 3 returns the cycle as an ordered node list
            tot += sum(G[nodes[i]][nodes[(i + 1) % len(nodes)]]['weight'] for i in range(len(nodes)))
    cmp_n += 1
    if cnt != d['dim'] or tot != d['opt_units']:
        bad.append(dict(n=g['n'], m=len(g['edges_u_v_units']), oracle=[d['dim'], d['opt_units']], networkx=[cnt, tot]))
print(json.dumps(dict(compared=cmp_n, disagreements=bad[:5], n_disagreements=len(bad))))
