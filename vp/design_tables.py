#!/usr/bin/env python3
"""Regenerates the result tables of DESIGN.md §8 from mutants/RESULTS.json and seeded/*/meta.json."""
import json, os, glob, re
VERIF = os.path.dirname(os.path.dirname(os.path.abspath(__file__)))
NOTES = {
 'm_c01_dup_edge': 'equivalent for the property: a walk that repeats an edge is always heavier than the odd cycle it contains, so the minimum over all start vertices is never such a walk; the rejection is a robustness measure only',
 'm_c13_cleanup_stops': 'degree threshold <= 2 in the clean-up of the main loop: degree-2 vertices are discarded without being emitted',
}
def main():
    out = []
    out.append('| self-test mutant (mutants/*.diff) | checks run -> fired | violation keys seen |')
    out.append('|---|---|---|')
    res = json.load(open(os.path.join(VERIF, 'mutants', 'RESULTS.json')))
    for name in sorted(res):
        if not os.path.exists(os.path.join(VERIF, 'mutants', name + '.diff')):
            continue
        r = res[name]
        ch = ', '.join('%s:%s' % (c, 'FIRED' if rc == 1 else ('silent' if rc == 0 else 'harness-failure')) for c, rc in sorted(r['checks'].items()))
        keys = '; '.join(r.get('keys', [])[:4])
        if not r.get('caught') and name in NOTES:
            keys = '*' + NOTES[name] + '*'
        out.append('| `%s` | %s | %s |' % (name, ch, keys))
    t1 = '\n'.join(out)
    out = []
    out.append('| seeded change (seeded/<name>/) | breaks | needs in order to manifest | checks run -> fired |')
    out.append('|---|---|---|---|')
    for f in sorted(glob.glob(os.path.join(VERIF, 'seeded', '*', 'meta.json'))):
        m = json.load(open(f)); name = os.path.basename(os.path.dirname(f))
        ch = ', '.join('%s:%s' % (c, 'FIRED' if rc == 1 else ('silent' if rc == 0 else 'harness-failure')) for c, rc in sorted(m['checks_run'].items()))
        out.append('| `%s` | %s | %s | %s |' % (name, m['property'], m['needs_to_manifest'].replace('|', chr(92) + '|'), ch))
    t2 = '\n'.join(out)
    p = os.path.join(VERIF, 'DESIGN.md'); s = open(p).read()
    s = re.sub(r'<!-- MUTANT-TABLE-BEGIN -->.*?<!-- MUTANT-TABLE-END -->', '<!-- MUTANT-TABLE-BEGIN -->\n' + t1 + '\n<!-- MUTANT-TABLE-END -->', s, flags=re.S)
    s = re.sub(r'<!-- SEEDED-TABLE-BEGIN -->.*?<!-- SEEDED-TABLE-END -->', '<!-- SEEDED-TABLE-BEGIN -->\n' + t2 + '\n<!-- SEEDED-TABLE-END -->', s, flags=re.S)
    open(p, 'w').write(s)
    print('tables updated')
if __name__ == '__main__':
    main()
