#!/usr/bin/env python3
"""Mutation sweep: many small mechanical mutants of the library headers, each checked (a) against the repository's own
test-suite and (b) against the functional parts of the quick checks (VERIF_FAST=1: plain / shim / mpi flavours only).
Writes mutants/SWEEP.json: per mutant  compile_error | killed_by_tests | killed_by_checks (which) | survived.
usage: vp/mutation_sweep.py [--n 120] [--seed 1] [--files a.hpp,b.hpp]"""
import os, sys, re, json, random, subprocess, tempfile, shutil, time
from concurrent.futures import ThreadPoolExecutor
VERIF = os.path.dirname(os.path.dirname(os.path.abspath(__file__)))
REPO = '/repo'
FILES = ['include/parmcb/parmcb_sva_signed.hpp', 'include/parmcb/parmcb_sva_signed_tbb.hpp', 'include/parmcb/parmcb_sva_trees.hpp', 'include/parmcb/sptrees.hpp',
         'include/parmcb/detail/signed_dijkstra.hpp', 'include/parmcb/detail/lex_dijkstra.hpp', 'include/parmcb/detail/cycles.hpp', 'include/parmcb/detail/fvs.hpp',
         'include/parmcb/detail/approx_spanner.hpp', 'include/parmcb/detail/bfs.hpp', 'include/parmcb/detail/dijkstra.hpp', 'include/parmcb/detail/spanning_forest.hpp',
         'include/parmcb/forestindex.hpp', 'include/parmcb/spvecgf2.hpp', 'include/parmcb/spvecfp.hpp', 'include/parmcb/fp.hpp', 'include/parmcb/util.hpp',
         'include/parmcb/mpi/parmcb_sva_signed.hpp', 'include/parmcb/mpi/parmcb_sva_trees.hpp', 'include/parmcb/detail/util.hpp']
CHECKS_FOR = {  # which quick checks can see a change in this file
    'spvecgf2.hpp': ['C17', 'C01', 'C02'], 'spvecfp.hpp': ['C18'], 'fp.hpp': ['C18'], 'util.hpp': ['C10', 'C01', 'C02'],
    'fvs.hpp': ['C13', 'C14', 'C02'], 'forestindex.hpp': ['C16', 'C01', 'C02'], 'spanning_forest.hpp': ['C16', 'C01', 'C02'],
    'bfs.hpp': ['C15', 'C06', 'C05'], 'dijkstra.hpp': ['C06', 'C05', 'C03'], 'approx_spanner.hpp': ['C05', 'C06', 'C15', 'C03'],
    'lex_dijkstra.hpp': ['C12', 'C14', 'C02', 'C01'], 'cycles.hpp': ['C14', 'C02', 'C01'], 'sptrees.hpp': ['C12', 'C14', 'C02', 'C01', 'C03', 'C04'],
    'signed_dijkstra.hpp': ['C02', 'C01', 'C03', 'C04'], 'parmcb_sva_signed.hpp': ['C02', 'C01', 'C08'], 'parmcb_sva_signed_tbb.hpp': ['C03', 'C08'],
    'parmcb_sva_trees.hpp': ['C02', 'C01', 'C03'], 'mpi/parmcb_sva_signed.hpp': ['C04'], 'mpi/parmcb_sva_trees.hpp': ['C04'], 'detail/util.hpp': ['C02', 'C12', 'C06'],
}
OPS = [(r' <= ', ' < '), (r' >= ', ' > '), (r' < ', ' <= '), (r' > ', ' >= '), (r' == ', ' != '), (r' != ', ' == '), (r' \+ 1\b', ''), (r' - 1\b', ''),
       (r' && ', ' || '), (r' \|\| ', ' && '), (r'\btrue\b', 'false'), (r'\bfalse\b', 'true'), (r'\+\+', '--'), (r' \+= ', ' -= '), (r'\bcontinue;', ';'), (r'\bbreak;', ';'),
       (r'\.begin\(\)', '.end()'), (r'!std::get', 'std::get'), (r'if \(!', 'if ('), (r' \+ ', ' - ')]
SKIP_LINE = re.compile(r'^\s*(#|//|\*|/\*|typedef|template|using |namespace|assert|std::cout|friend|class |struct |public:|private:|return \*this)')


def sites(rel):
    out = []
    src = open(os.path.join(REPO, rel)).read().splitlines()
    in_verif = False; in_log = False
    for i, line in enumerate(src):
        if 'PARMCB_VERIF' in line: in_verif = True
        if 'PARMCB_LOGGING' in line: in_log = True
        if line.strip().startswith('#endif'): in_verif = False; in_log = False; continue
        if in_verif or in_log or SKIP_LINE.match(line) or 'cpu_timer' in line or 'timer.' in line or 'BOOST_CONCEPT' in line:
            continue
        code = line.split('//')[0]
        for k, (pat, rep) in enumerate(OPS):
            for m in re.finditer(pat, code):
                # do not touch template angle brackets / includes / stream operators
                seg = code[max(0, m.start() - 12):m.end() + 12]
                if '<<' in seg or '>>' in seg or 'template' in code or 'operator' in code:
                    continue
                out.append((rel, i, m.start(), m.end(), rep, k))
    return out


def apply(scratch, site):
    rel, i, a, b, rep, k = site
    p = os.path.join(scratch, rel)
    src = open(p).read().split('\n')
    src[i] = src[i][:a] + rep + src[i][b:]
    open(p, 'w').write('\n'.join(src))
    return src[i].strip()


def run_tests(scratch, cfg):
    tests = ['test_fp', 'test_forest_index', 'test_spvecfp', 'test_fvs', 'test_mcb', 'test_mcb1', 'test_approx_mcb']
    def one(t):
        exe = os.path.join(scratch, t)
        r = subprocess.run(['g++', '-std=c++14', '-O2', '-DNDEBUG', '-w', '-I' + os.path.join(scratch, 'include'), '-I' + cfg, os.path.join(scratch, 'test', t + '.cpp'), '-o', exe, '-ltbb', '-lboost_timer', '-lpthread'],
                           stdout=subprocess.PIPE, stderr=subprocess.STDOUT, text=True)
        if r.returncode != 0:
            return 'compile'
        try:
            r = subprocess.run([exe], stdout=subprocess.DEVNULL, stderr=subprocess.DEVNULL, timeout=120)
        except subprocess.TimeoutExpired:
            return 'fail'
        return 'ok' if r.returncode == 0 else 'fail'
    with ThreadPoolExecutor(max_workers=7) as ex:
        res = list(ex.map(one, tests))
    if 'compile' in res: return 'compile_error'
    if 'fail' in res: return 'killed_by_tests'
    return 'ok'


def main():
    n = 120; seed = 1; files = FILES
    a = sys.argv[1:]
    for i, x in enumerate(a):
        if x == '--n': n = int(a[i + 1])
        if x == '--seed': seed = int(a[i + 1])
        if x == '--files': files = [f for f in FILES if any(f.endswith(y) for y in a[i + 1].split(','))]
    rng = random.Random(seed)
    allsites = []
    for f in files:
        allsites += sites(f)
    rng.shuffle(allsites)
    chosen = allsites[:n]
    sys.path.insert(0, os.path.join(VERIF, 'vp'))
    import lib
    cfg = os.path.join(lib.ensure_configured('rel'), 'include')
    out_path = os.path.join(VERIF, 'mutants', 'SWEEP.json')
    results = json.load(open(out_path)) if os.path.exists(out_path) else {}
    print('sites: %d total, running %d' % (len(allsites), len(chosen)), flush=True)
    for site in chosen:
        rel, i, a_, b_, rep, k = site
        key = '%s:%d:%d:%d' % (rel, i + 1, a_, k)
        if key in results:
            continue
        scratch = tempfile.mkdtemp(prefix='parmcb-sweep-', dir='/tmp')
        t0 = time.time()
        try:
            subprocess.check_call(['rsync', '-a', '--exclude', '_build', '--exclude', '.git', REPO + '/', scratch + '/repo/'])
            new_line = apply(os.path.join(scratch, 'repo'), site)
            old_line = open(os.path.join(REPO, rel)).read().split('\n')[i].strip()
            verdict = run_tests(os.path.join(scratch, 'repo'), cfg)
            fired = {}
            if verdict == 'ok':
                base = rel.split('include/parmcb/')[-1]
                checks = CHECKS_FOR.get(base) or CHECKS_FOR.get(os.path.basename(rel)) or ['C01', 'C02']
                env = dict(os.environ, VERIF_REPO=os.path.join(scratch, 'repo'), VERIF_BUILD=os.path.join(scratch, 'build'), VERIF_OUT=os.path.join(scratch, 'out'), VERIF_FAST='1', VERIF_SEED=str(seed))
                verdict = 'survived'
                for c in checks:
                    p = subprocess.run([sys.executable, os.path.join(VERIF, 'vp/check.py'), c], cwd=VERIF, env=env, stdout=subprocess.PIPE, stderr=subprocess.STDOUT, text=True)
                    fired[c] = p.returncode
                    if p.returncode == 1:
                        verdict = 'killed_by_checks'
                        break
                    if p.returncode == 2 and 'compiling' in p.stdout:
                        verdict = 'compile_error'; break
            results[key] = dict(file=rel, line=i + 1, old=old_line, new=new_line, verdict=verdict, checks=fired, wall_s=round(time.time() - t0))
            print(key, verdict, fired, '|', old_line[:70], '=>', new_line[:70], flush=True)
            json.dump(results, open(out_path, 'w'), indent=1, sort_keys=True)
        finally:
            shutil.rmtree(scratch, ignore_errors=True)
    tally = {}
    for r in results.values():
        tally[r['verdict']] = tally.get(r['verdict'], 0) + 1
    print('TALLY', tally)


if __name__ == '__main__':
    main()
