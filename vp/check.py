#!/usr/bin/env python3
"""Entry point of every quick/thorough command:  python3 vp/check.py <ID> [--tier quick|thorough] [--replay FILE]
Exit 0: property held on everything explored; 1: VIOLATION line(s) printed; 2: the harness itself failed."""
import os, sys, json, argparse, time, traceback

sys.path.insert(0, os.path.dirname(os.path.abspath(__file__)))
import lib
from lib import Verdict, run_cases, base_coverage, build_many, HarnessFailure

ASAN_ENV = {'ASAN_OPTIONS': 'abort_on_error=0:detect_leaks=1:detect_stack_use_after_return=1:halt_on_error=1:exitcode=99',
            'UBSAN_OPTIONS': 'print_stacktrace=1:halt_on_error=1', 'LSAN_OPTIONS': 'exitcode=98'}


def T(tier, q, t):
    return q if tier == 'quick' else t


# ------------------------------------------------------------------------------------------------
def check_c01(tier, seed, replay=None):
    v = Verdict('C01', tier, seed)
    bins = build_many([('h_exact', 'plain'), ('h_exact', 'asan')])
    n = T(tier, 4000, 200000)
    agg = run_cases(bins[('h_exact', 'plain')], 'c01', seed, n, opts=dict(max_n=T(tier, 40, 80)))
    v.absorb(agg)
    na = T(tier, 150, 3000)
    agg2 = run_cases(bins[('h_exact', 'asan')], 'c01', seed + 1000003, na, opts=dict(max_n=T(tier, 24, 40), large=0), env=ASAN_ENV, source='h_exact(asan+asserts):c01')
    v.absorb(agg2)
    cov = base_coverage(agg, 'generated simple graphs (families in tallies; random numbering and insertion order), weight types double and int, three sequential exact variants each; '
                        'non-trivial = cycle space dimension >= 2; distinct = canonical hash of (n, sorted weighted edge list, weight type)',
                        dict(variants=['mcb_sva_signed', 'mcb_sva_fvs_trees', 'mcb_sva_iso_trees'], executions=agg.evaluations * 3,
                             asan_assert_slice=dict(evaluations=agg2.evaluations, distinct_nontrivial=len(agg2.hashes), sanitizer_reports=len(agg2.sanitizer_reports))))
    return v.finish(cov, ['graph generator families cover the quantifier only by sampling', 'independent validity monitor in harness/common/vcommon.hpp (check_basis) is correct',
                          'n <= %d' % T(tier, 40, 80)])


def oracle_vs_networkx(binary, seed, n, max_n):
    """second, independent validation of the C++ oracle: the same generator's graphs re-solved by networkx (tooling venv)"""
    import shutil, subprocess
    py = shutil.which('python3-vt')
    if not py:
        return dict(skipped='python3-vt (networkx) not on PATH')
    try:
        out = subprocess.run([binary, '--mode', 'oracle', '--seed', str(seed + 99), '--from', '0', '--to', str(n), '--samples', str(n), '--opt', 'max_n=%d' % max_n], stdout=subprocess.PIPE, text=True, timeout=1800).stdout
        lines = []
        for l in out.splitlines():
            if l.startswith('E '):
                d = json.loads(l.split(' ', 2)[2])
                if 'sample' in d:
                    lines.append(json.dumps(d['sample']))
        r = subprocess.run([py, os.path.join(lib.VERIF, 'vp', 'nx_oracle.py')], input='\n'.join(lines) + '\n', stdout=subprocess.PIPE, stderr=subprocess.PIPE, text=True, timeout=3600)
        if r.returncode != 0:
            return dict(skipped='networkx run failed: ' + r.stderr[-200:])
        return json.loads(r.stdout.strip().splitlines()[-1])
    except Exception as e:
        return dict(skipped='networkx cross-check not run: %s' % e)


def check_c02(tier, seed, replay=None):
    v = Verdict('C02', tier, seed)
    bins = build_many([('h_exact', 'plain'), ('h_exact', 'asan')])
    n = T(tier, 4000, 150000)
    agg = run_cases(bins[('h_exact', 'plain')], 'c02', seed, n, opts=dict(max_n=T(tier, 30, 80)))
    v.absorb(agg)
    agg2 = run_cases(bins[('h_exact', 'asan')], 'c02', seed + 1000003, T(tier, 120, 2500), opts=dict(max_n=T(tier, 20, 36), large=0), env=ASAN_ENV, source='h_exact(asan+asserts):c02')
    v.absorb(agg2)
    nx = oracle_vs_networkx(bins[('h_exact', 'plain')], seed, T(tier, 120, 3000), T(tier, 22, 30))
    if nx.get('n_disagreements'):
        v.failures.append('Horton+Gauss oracle disagrees with networkx.minimum_cycle_basis: %s' % json.dumps(nx['disagreements'])[:600])
    cov = base_coverage(agg, 'generated graphs biased to ties (unit/{1,2}/{1,2,3} weights, grids, hypercubes, K_ab, theta graphs); oracle = Horton candidates + GF(2) elimination in exact '
                        'integers, self-validated against brute force over all simple cycles on small graphs in every process; non-trivial = cycle space dimension >= 2',
                        dict(variants=['mcb_sva_signed', 'mcb_sva_fvs_trees', 'mcb_sva_iso_trees'], executions=agg.evaluations * 3,
                             tie_rich_nontrivial=agg.tags.get('tie_rich', 0), oracle_cross_validation_networkx=nx,
                             asan_assert_slice=dict(evaluations=agg2.evaluations, sanitizer_reports=len(agg2.sanitizer_reports))))
    return v.finish(cov, ['Horton+Gauss oracle (cross-checked against brute force every run)', 'weights exactly summable (integers / dyadic doubles / int)'])


def check_c09(tier, seed, replay=None):
    v = Verdict('C09', tier, seed)
    bins = build_many([('h_exact', 'plain')])
    agg = run_cases(bins[('h_exact', 'plain')], 'c09', seed, T(tier, 4000, 200000), opts=dict(max_n=T(tier, 22, 40)))
    v.absorb(agg)
    cov = base_coverage(agg, 'graphs with decimal weights k/1000 (tie-rich sets {0.1,0.2,0.3,0.7}, one-decimal, arbitrary thousandths) and binary weights with 50-bit '
                        'mantissas in [1e-3,1e3] whose sums are inexact in double; six exact variants; oracle in exact integer units; tolerance relative 1e-9; '
                        'non-trivial = cycle space dimension >= 2',
                        dict(variants=list(range(6)), executions=agg.evaluations * 6))
    return v.finish(cov, ['oracle computed in exact integer arithmetic on the generator\'s units', 'real oneTBB scheduler for the *_tbb variants (schedules not controlled here, see C03)'])


def check_c08(tier, seed, replay=None):
    v = Verdict('C08', tier, seed)
    bins = build_many([('h_exact', 'plain')])
    agg = run_cases(bins[('h_exact', 'plain')], 'c08', seed, T(tier, 96, 600), opts=dict(min_n=T(tier, 30, 40), max_n=T(tier, 160, 320), variants_per_xform=T(tier, 2, 6)), chunk=T(tier, 1, 4), timeout=1800)
    v.absorb(agg)
    cov = base_coverage(agg, 'base graphs with 30-400 vertices (sparse/dense random, grids, tori, hypercubes, cycles with chords, small families); six exact variants must agree; '
                        'ten transformed copies per base graph (relabel, edge order, both, heap layout via scrambling allocator, isolated vertices, pendant trees, disjoint union, '
                        'union+bridge, edge subdivision, power-of-two scaling) each run on a random subset of variants; exact equality in the exactly summable domain; '
                        'non-trivial = cycle space dimension >= 2',
                        dict(transforms_per_base=10))
    return v.finish(cov, ['relations are necessary conditions (no optimum oracle at this scale)', 'real oneTBB for *_tbb variants'])


def check_c05(tier, seed, replay=None):
    v = Verdict('C05', tier, seed)
    bins = build_many([('h_approx', 'plain'), ('h_approx', 'asan')])
    agg = run_cases(bins[('h_approx', 'plain')], 'c05', seed, T(tier, 4000, 150000), opts=dict(max_n=T(tier, 26, 60)))
    v.absorb(agg)
    # descriptors must stay usable with the caller's maps after return: read w[e] through every one under ASan
    agg2 = run_cases(bins[('h_approx', 'asan')], 'c05', seed + 1000003, T(tier, 120, 2500), opts=dict(max_n=T(tier, 18, 30), deref=1), env=ASAN_ENV, source='h_approx(asan,deref):c05')
    v.absorb(agg2)
    cov = base_coverage(agg, 'generated graphs biased to girth > 2k (long cycles with chords, girth-critical bouquets, grids, sparse connected, long theta graphs) plus all general families; '
                        'k in {1..5, n}; three sequential approximate entry points; checked after return: count, descriptors belong to the caller\'s graph (property-pointer identity), '
                        'simple cycles, GF(2) rank, returned == sum under caller\'s map; non-trivial = the spanner itself has a cycle (so cycles originate from the exact phase)',
                        dict(executions=agg.evaluations * 3, cases_with_spanner_cycles=agg.tags.get('spanner_has_cycles', 0), cases_with_non_spanner_edges=agg.tags.get('has_non_spanner_edges', 0),
                             asan_deref_slice=dict(evaluations=agg2.evaluations, distinct_nontrivial=len(agg2.hashes), sanitizer_reports=len(agg2.sanitizer_reports))))
    return v.finish(cov, ['spanner cycle-space dimension read through the PARMCB_VERIF accessor (only to count non-trivial cases)', 'weights exactly summable'])


def check_c06(tier, seed, replay=None):
    v = Verdict('C06', tier, seed)
    bins = build_many([('h_approx', 'plain')])
    agg = run_cases(bins[('h_approx', 'plain')], 'c06', seed, T(tier, 4000, 300000), opts=dict(max_n=T(tier, 26, 60)))
    v.absorb(agg)
    cov = base_coverage(agg, 'as C05 plus adversarial weights (heavy chord closing a light cycle, geometric weights), k = 0 in ~8% of cases; oracle optimum by Horton+Gauss (self-validated); '
                        'emitted <= (2k-1)*OPT in exact integers, == OPT for k=1, k=0 must throw and emit nothing (counting iterator); non-trivial = cycle space dimension >= 2',
                        dict(executions=agg.evaluations * 3, executions_above_optimum=agg.tags.get('above_optimum', 0), executions_at_optimum=agg.tags.get('hit_optimum', 0), k0_cases=agg.tags.get('k0_call', 0),
                             skipped_invalid_basis=agg.tags.get('invalid_basis_skipped(C05)', 0)))
    return v.finish(cov, ['basis validity is a precondition here (an invalid basis is reported by C05, counted as skipped)', 'Horton+Gauss oracle'])


def check_c15(tier, seed, replay=None):
    v = Verdict('C15', tier, seed)
    bins = build_many([('h_approx', 'plain')])
    agg = run_cases(bins[('h_approx', 'plain')], 'c15', seed, T(tier, 5000, 600000), opts=dict(max_n=T(tier, 30, 70)))
    v.absorb(agg)
    cov = base_coverage(agg, 'BaseApproxSpannerAlgorithm constructed on generated (graph, k), k in 1..6 and n; spanner, translation map, vertex map and dropped edges read through the PARMCB_VERIF accessors and '
                        'cross-checked with a spy exact phase that records what it is handed; oracle: bijection, subgraph with input weights, partition, per dropped edge a detour of <= 2k-1 retained edges none heavier (BFS), '
                        'girth > 2k (BFS); non-trivial = at least one dropped and one retained edge',
                        dict(cases_girth_exactly_2k_plus_1=agg.tags.get('girth==2k+1(tight)', 0), cases_with_dropped_edges=agg.tags.get('has_dropped_edges', 0)))
    return v.finish(cov, ['hook accessors return the live members (cross-checked by the spy)'])


def check_c12(tier, seed, replay=None):
    v = Verdict('C12', tier, seed)
    bins = build_many([('h_parts', 'plain')])
    agg = run_cases(bins[('h_parts', 'plain')], 'c12', seed, T(tier, 1500, 100000), opts=dict(max_n=T(tier, 16, 40)))
    v.absorb(agg)
    cov = base_coverage(agg, 'tie-saturated graphs (85% unit/{1,2}/{1,2,3} weights; grids, hypercubes, K_ab, complete graphs), SPTree for every source, weight types double and int; oracle: exact Dijkstra, '
                        'pred walk, child lists, first(), path symmetry and sub-path optimality over all ordered pairs; non-trivial = graph has a cycle and >= 6 connected ordered pairs',
                        dict(ordered_pairs_checked=agg.summary.get('ordered_pairs_checked', 0), subpaths_checked=agg.summary.get('subpaths_checked', 0)))
    return v.finish(cov, ['exact integer Dijkstra oracle'])


def check_c13(tier, seed, replay=None):
    v = Verdict('C13', tier, seed)
    bins = build_many([('h_parts', 'plain'), ('h_parts', 'asan')])
    agg = run_cases(bins[('h_parts', 'plain')], 'c13', seed, T(tier, 5000, 500000), opts=dict(max_n=T(tier, 120, 200)))
    v.absorb(agg)
    agg2 = run_cases(bins[('h_parts', 'asan')], 'c13', seed + 1000003, T(tier, 300, 6000), opts=dict(max_n=80, large=0), env=ASAN_ENV, source='h_parts(asan):c13')
    v.absorb(agg2)
    cov = base_coverage(agg, 'all graph families up to 200 vertices plus hubs and caterpillars glued to cycles (repeated degree<=1 clean-up); oracle: vertices valid and distinct, union-find acyclicity of the rest, '
                        'nothing for forests; non-trivial = cycle space dimension >= 2',
                        dict(fvs_vertices_emitted=agg.summary.get('fvs_vertices_emitted', 0), asan_slice=dict(evaluations=agg2.evaluations, sanitizer_reports=len(agg2.sanitizer_reports))))
    return v.finish(cov, ['simple graphs only (the property\'s domain)'])


def check_c14(tier, seed, replay=None):
    v = Verdict('C14', tier, seed)
    bins = build_many([('h_parts', 'plain')])
    agg = run_cases(bins[('h_parts', 'plain')], 'c14', seed, T(tier, 2500, 200000), opts=dict(max_n=T(tier, 26, 44)))
    v.absorb(agg)
    cov = base_coverage(agg, 'tie-rich graphs; Horton, FVS and ISO builders; every candidate walked (closing edge is a non-tree edge, two root paths meeting only at the root, recorded == true weight); '
                        'FVS and ISO candidates identified by (root, edge) inside Horton; greedy with GF(2) independence over each collection reaches dimension and oracle optimum; non-trivial = dimension >= 2',
                        dict(candidates_checked=agg.summary.get('candidates_checked', 0)))
    return v.finish(cov, ['Horton+Gauss oracle (self-validated)'])


def check_c16(tier, seed, replay=None):
    v = Verdict('C16', tier, seed)
    bins = build_many([('h_parts', 'plain')])
    agg = run_cases(bins[('h_parts', 'plain')], 'c16', seed, T(tier, 10000, 1000000), opts=dict(max_n=T(tier, 40, 80)))
    v.absorb(agg)
    cov = base_coverage(agg, 'all families incl. empty graph, edgeless, forests, many components; half of the graphs built under the scrambling allocator (the index is a pointer-keyed map); oracle: permutation of 0..m-1, '
                        'mutual inverses, components and dimension by union-find, forest flag <=> index >= dimension, forest edges acyclic and n-c many, copies equal; non-trivial = m >= 2 and a cycle exists',
                        dict(scrambled_layout_cases=agg.tags.get('scrambled_layout', 0)))
    return v.finish(cov, [])


def check_c17(tier, seed, replay=None):
    v = Verdict('C17', tier, seed)
    bins = build_many([('h_vec', 'plain'), ('h_vec', 'asan')])
    agg = run_cases(bins[('h_vec', 'plain')], 'c17', seed, T(tier, 20000, 2000000))
    v.absorb(agg)
    agg2 = run_cases(bins[('h_vec', 'asan')], 'c17', seed + 1000003, T(tier, 2000, 100000), env=ASAN_ENV, source='h_vec(asan):c17')
    v.absorb(agg2)
    cov = base_coverage(agg, 'random histories (1-200 operations, pool of 2-8 live vectors, dimension 1-300) of unit/set/copy/move construction, +, +=, v+=v, v=v+v, *, * with std::set, copy/move assignment incl. self, clear; '
                        'after every operation every live vector is compared with a dense model (strictly increasing coordinates, size()); non-trivial = history of >= 5 operations; distinct by (seed, case, dimension)',
                        dict(operations=agg.summary.get('operations', 0), per_operation={k[3:]: n for k, n in agg.summary.items() if k.startswith('op:')},
                             asan_slice=dict(evaluations=agg2.evaluations, operations=agg2.summary.get('operations', 0), sanitizer_reports=len(agg2.sanitizer_reports))))
    return v.finish(cov, ['SpVecGF2::add is not part of the property and is not exercised'])


def check_c18(tier, seed, replay=None):
    v = Verdict('C18', tier, seed)
    bins = build_many([('h_vec', 'plain'), ('h_vec', 'asan')])
    b = bins[('h_vec', 'plain')]
    aggs = {}
    aggs['gcd'] = run_cases(b, 'c18gcd', seed, 129 + T(tier, 300, 20000))
    aggs['inv'] = run_cases(b, 'c18inv', seed, 199 + T(tier, 200, 10000))
    aggs['prime'] = run_cases(b, 'c18prime', seed, 200 + T(tier, 60, 2000), opts=dict(blocks=200, cpp_blocks=T(tier, 20, 200)))
    aggs['vec'] = run_cases(b, 'c18vec', seed, T(tier, 6000, 600000))
    aggs['asan'] = run_cases(bins[('h_vec', 'asan')], 'c18vec', seed + 1000003, T(tier, 1500, 60000), env=ASAN_ENV, source='h_vec(asan):c18vec')
    run_cases(bins[('h_vec', 'asan')], 'c18gcd', seed + 1000003, 129 + T(tier, 40, 2000), env=ASAN_ENV, source='h_vec(asan):c18gcd', agg=aggs['asan'])
    total = lib.Agg()
    for a in aggs.values():
        v.absorb(a)
    for k in ('gcd', 'inv', 'prime', 'vec'):
        a = aggs[k]
        total.evaluations += a.evaluations; total.hashes |= a.hashes; total.all_hashes |= a.all_hashes; total.tags.update(a.tags); total.samples += a.samples[:2]; total.summary.update(a.summary)
    cov = base_coverage(total, 'EXHAUSTIVE sub-domains: ext_gcd for all (a,b) in [-64,64]^2 minus (0,0); get_mult_inverse for all p in 2..200 and a in [-3p,3p]; is_prime for all p in 2..199999 (cpp_int on a prefix) - each for '
                        'int, long long and cpp_int; plus random large operands kept where results are representable (|a|,|b| < 2^31 for long long, < 2^15 for int, up to 200 bits for cpp_int; is_prime up to 1e12 against '
                        'deterministic Miller-Rabin) and random SpVecFP histories against a dense mod-p model (scalars negative, zero, multiples of p); a case = one row/modulus/block/history; all cases non-trivial',
                        dict(exhaustive=False, exhaustive_subdomains=['ext_gcd |a|,|b|<=64 (3 types)', 'get_mult_inverse p in 2..200, a in [-3p,3p] (3 types)', 'is_prime 2..199999 (int, long long; cpp_int prefix)'],
                             ext_gcd_evaluations=total.summary.get('ext_gcd_evaluations', 0), mult_inverse_evaluations=total.summary.get('mult_inverse_evaluations', 0),
                             is_prime_evaluations=total.summary.get('is_prime_evaluations', 0), spvecfp_operations=total.summary.get('spvecfp_operations', 0),
                             asan_ubsan_slice=dict(evaluations=aggs['asan'].evaluations, sanitizer_reports=len(aggs['asan'].sanitizer_reports))))
    return v.finish(cov, ['built-in integer operands restricted to where the mathematical result is representable', 'reference gcd / modular arithmetic in cpp_int and __int128'])


def check_c10(tier, seed, replay=None):
    v = Verdict('C10', tier, seed)
    bins = build_many([('h_dimacs', 'plain'), ('h_dimacs', 'asan')])
    agg = run_cases(bins[('h_dimacs', 'plain')], 'c10', seed, T(tier, 20000, 3000000))
    v.absorb(agg)
    agg2 = run_cases(bins[('h_dimacs', 'asan')], 'c10', seed + 1000003, T(tier, 3000, 100000), env=ASAN_ENV, source='h_dimacs(asan):c10')
    v.absorb(agg2)
    cov = base_coverage(agg, 'generated DIMACS texts fed through fmemopen: c/# comments anywhere (incl. before the problem line, as last line, up to 1000 bytes, containing edge-like text), e/a lines, integer/decimal/omitted '
                        'weights, with/without trailing newline, last line = comment/edge with weight/edge without weight/problem line, undeclared vertices (0 or > n) must raise; compared edge by edge in file order with '
                        'strtod of the written token; plus random multigraphs for the three validators; non-trivial = at least one edge line; distinct by text hash',
                        dict(no_trailing_newline_cases=agg.tags.get('no_trailing_newline', 0), undeclared_vertex_cases=agg.tags.get('undeclared_vertex', 0),
                             asan_slice=dict(evaluations=agg2.evaluations, sanitizer_reports=len(agg2.sanitizer_reports))))
    return v.finish(cov, ['lines shorter than the 1024-byte buffer (the property\'s domain)'])


TSAN_ENV = {'TSAN_OPTIONS': 'halt_on_error=0:exitcode=0:report_signal_unsafe=0:history_size=4'}


def check_c03(tier, seed, replay=None):
    v = Verdict('C03', tier, seed)
    bins = build_many([('h_sched', 'shim'), ('h_sched', 'tsan'), ('h_sched', 'plain'), ('h_mpi', 'mpi'), ('h_knob', 'plain'), ('h_knob', 'shim'), ('h_sched', 'asan'),
              ('h_vec', 'valgrind'), ('h_dimacs', 'valgrind'), ('h_parts', 'valgrind'), ('h_exact', 'valgrind')])
    # functional half: deterministic injected schedules
    agg = run_cases(bins[('h_sched', 'shim')], 'c03', seed, T(tier, 600, 5000), opts=dict(max_n=T(tier, 22, 40), schedules=T(tier, 4, 16)), timeout=1800)
    v.absorb(agg)
    # race half: real threads under ThreadSanitizer, different seeds because reports vary from run to run
    aggt = lib.Agg()
    for rep in range(T(tier, 1, 3)):
        run_cases(bins[('h_sched', 'tsan')], 'c03t', seed + 7919 * (rep + 1), T(tier, 96, 500), opts=dict(max_n=T(tier, 16, 22), schedules=T(tier, 2, 3)), env=TSAN_ENV, timeout=3600, source='h_sched(tsan):c03t', agg=aggt, chunk=T(tier, 2, 8))
    v.absorb(aggt)
    # production scheduler, functional verdicts only
    aggr = run_cases(bins[('h_sched', 'plain')], 'c03real', seed + 31337, T(tier, 100, 2000), opts=dict(max_n=T(tier, 26, 40), schedules=3), timeout=1800, source='h_sched(oneTBB):c03real')
    v.absorb(aggr)
    races = [r for r in aggt.sanitizer_reports if r['kind'].startswith('tsan')]
    cov = base_coverage(agg, 'generated graphs (cycle space dimension 2..~120), six TBB entry points (exact: signed/fvs/iso; approximate with k in 1..3), several independently drawn schedules per (graph, entry): '
                        'random legal partition of every range, random grouping of consecutive leaves into accumulation runs seeded with the identity, random execution order, random order-preserving join tree, '
                        'random interleaving of concurrent push_backs; functional oracle = basis validity + returned == emitted + optimum (exact) / (2k-1) bound (approx) + agreement with the sequential variant; '
                        'non-trivial = cycle space dimension >= 2; distinct by canonical graph hash',
                        dict(serial_shim=dict(agg.summary), threaded_tsan=dict(evaluations=aggt.evaluations, distinct_nontrivial=len(aggt.hashes), tsan_reports_total=len(races),
                             tsan_reports_with_parmcb_frame=len([r for r in races if r.get('parmcb_frame')]), **{k: aggt.summary.get(k, 0) for k in ('executions', 'regions', 'leaves', 'runs', 'joins', 'distinct_schedule_shapes_in_one_process_max', 'concurrent_push_backs')}),
                             real_onetbb=dict(evaluations=aggr.evaluations, executions=aggr.summary.get('executions', 0), limits=[1, 2, 4, 16]),
                             distinct_schedule_shapes_lower_bound=agg.summary.get('distinct_schedule_shapes_in_one_process_max', 0), distinct_schedule_shapes_upper_bound=agg.summary.get('distinct_schedule_shapes_summed_over_processes', 0), shape_note='a shape = (cut points, run boundaries, join tree) of one parallel region; each worker process counts its own distinct shapes: the maximum over processes is a lower bound and the sum an upper bound of the number of distinct shapes seen', regions=agg.summary.get('regions', 0),
                             joins_combining_two_nonidentity_values=agg.summary.get('joins_nonidentity_nonidentity', 0)))
    return v.finish(cov, ['the shim implements the documented execution space of parallel_for / parallel_reduce / concurrent_vector, not oneTBB\'s implementation',
                          'ThreadSanitizer sees every synchronisation of the shim (std::thread create/join, atomics); races needing weak hardware ordering are outside its model'])


MPI_RANKS = [1, 2, 3, 4, 5, 7, 8, 16]
MPI_ENTRIES = ['mcb_sva_signed_mpi', 'mcb_sva_fvs_trees_mpi', 'mcb_sva_fvs_trees_tbb_mpi', 'mcb_sva_iso_trees_mpi', 'mcb_sva_iso_trees_tbb_mpi']


def check_c04(tier, seed, replay=None):
    import mpirun
    from concurrent.futures import ThreadPoolExecutor
    v = Verdict('C04', tier, seed)
    bins = build_many([('h_mpi', 'mpi')])
    b = bins[('h_mpi', 'mpi')]
    agg = lib.Agg()
    ncases = T(tier, 80, 1500); chunk = T(tier, 40, 150); reps = T(tier, 1, 3)
    jobs = []
    for rep in range(reps):
        for P in MPI_RANKS:
            for a in range(0, ncases, chunk):
                jobs.append((P, seed + 104729 * rep + P, a, min(a + chunk, ncases)))
    def one(j):
        P, sd, a, e = j
        mpirun.run_mpi_cases(agg, b, sd, P, a, e, dict(max_n=T(tier, 22, 26), layout='mixed', long_cycles_permille=T(tier, 30, 5)), T(tier, 300, 900), 'h_mpi:P=%d' % P, MPI_ENTRIES)
    with ThreadPoolExecutor(max_workers=T(tier, 8, 6)) as ex:
        list(ex.map(one, jobs))
    v.absorb(agg)
    perP = {('P=%d' % P): agg.tags.get('P=%d' % P, 0) for P in MPI_RANKS}
    cov = base_coverage(agg, 'real mpiexec jobs with P in {1,2,3,4,5,7,8,16} ranks (incl. P > number of vertices / candidates / signed edges and P not dividing them); generated graphs with 0-26 vertices incl. empty graph and forests; '
                        'all ranks build the same graph, 70% of cases under a per-rank scrambling allocator (different edge-property address order per rank), the rest with natural allocation; five MPI entry points per case; '
                        'oracle: every rank logs RETURN for every call, non-root ranks emit nothing, rank 0 basis valid and == optimum; non-trivial = dimension >= 2, P >= 2 and at least two ranks really held different edge address orders; '
                        'distinct by (graph hash, P, layout seed)',
                        dict(rank_counts=MPI_RANKS, cases_per_rank_count=perP, executions=agg.evaluations * 5, cases_where_ranks_held_different_layouts=agg.tags.get('ranks_hold_different_layouts', 0),
                             scrambled_cases=agg.tags.get('layout:scrambled', 0), natural_cases=agg.tags.get('layout:natural', 0)))
    return v.finish(cov, ['single host, OpenMPI shared-memory transport', 'termination is judged by a %d s watchdog per job with one automatic re-run' % T(tier, 300, 900)])


def check_c11(tier, seed, replay=None):
    import demos
    return demos.check_c11(tier, seed)


def check_c20(tier, seed, replay=None):
    import demos
    return demos.check_c20(tier, seed)


def check_c07(tier, seed, replay=None):
    """sanitizer verdicts only: functional violations of the same runs belong to their own properties"""
    import demos as demos_mod, random, tempfile, shutil, dimacs_gen
    v = Verdict('C07', tier, seed)
    bins = build_many([('h_exact', 'asan'), ('h_approx', 'asan'), ('h_parts', 'asan'), ('h_vec', 'asan'), ('h_dimacs', 'asan'), ('h_sched', 'asan'), ('h_sched', 'tsan'),
                       ('h_mt', 'tsan'), ('h_mt', 'plain'), ('h_vec', 'valgrind'), ('h_dimacs', 'valgrind'), ('h_parts', 'valgrind'), ('h_exact', 'valgrind')])
    sd = seed + 7000003
    plan = [  # (harness, mode, quick cases, thorough cases, opts)
        ('h_exact', 'c01', 250, 4000, dict(max_n=T(tier, 24, 40), large=0)),
        ('h_exact', 'c02', 120, 2000, dict(max_n=T(tier, 20, 32), large=0)),
        ('h_sched', 'c03real', 60, 1200, dict(max_n=T(tier, 18, 26), schedules=1)),
        ('h_approx', 'c05', 200, 3000, dict(max_n=T(tier, 18, 30), deref=1)),
        ('h_approx', 'c06', 100, 2000, dict(max_n=T(tier, 18, 30))),
        ('h_approx', 'c15', 150, 3000, dict(max_n=T(tier, 20, 30))),
        ('h_parts', 'c12', 80, 1500, dict(max_n=T(tier, 12, 20), large=0)),
        ('h_parts', 'c13', 300, 6000, dict(max_n=80, large=0)),
        ('h_parts', 'c14', 100, 2000, dict(max_n=T(tier, 16, 24), large=0)),
        ('h_parts', 'c16', 500, 20000, dict(max_n=40, large=0)),
        ('h_vec', 'c17', 1500, 60000, {}),
        ('h_vec', 'c18gcd', 160, 2000, {}),
        ('h_vec', 'c18inv', 120, 1500, {}),
        ('h_vec', 'c18prime', 30, 260, dict(blocks=T(tier, 20, 200), cpp_blocks=T(tier, 2, 20))),
        ('h_vec', 'c18vec', 1500, 60000, {}),
        ('h_dimacs', 'c10', 3000, 100000, {}),
    ]
    per = {}
    total = lib.Agg()
    for h, mode, q, t, opts in plan:
        a = run_cases(bins[(h, 'asan')], mode, sd, T(tier, q, t), opts=opts, env=ASAN_ENV, source='%s(asan+ubsan+lsan):%s' % (h, mode), timeout=1800)
        v.absorb(a, functional=False)
        per['%s:%s' % (h, mode)] = dict(cases=a.evaluations, sanitizer_reports=len(a.sanitizer_reports), crashes=len(a.crashes))
        total.evaluations += a.evaluations; total.hashes |= {('%s:%s' % (mode, x)) for x in a.hashes}; total.all_hashes |= {('%s:%s' % (mode, x)) for x in a.all_hashes}; total.tags.update({k: n for k, n in a.tags.items() if k.startswith(('forest', 'fam:empty', 'fam:single', 'fam:edgeless', 'disconnected', 'k='))})
        total.samples += a.samples[:1]
    # multi-threaded half: instrumented scheduler on real threads under ThreadSanitizer
    at = run_cases(bins[('h_sched', 'tsan')], 'c03t', sd, T(tier, 32, 400), opts=dict(max_n=T(tier, 14, 20), schedules=T(tier, 1, 2)), env=TSAN_ENV, timeout=3600, source='h_sched(tsan):c03t', chunk=T(tier, 2, 8))
    v.absorb(at, functional=False)
    per['h_sched:c03t(tsan)'] = dict(cases=at.evaluations, sanitizer_reports=len(at.sanitizer_reports), crashes=len(at.crashes))
    total.evaluations += at.evaluations
    # concurrent CALLERS: 2-4 threads run the sequential entry points and the component builders at the same time on one const graph;
    # ThreadSanitizer watches for hidden shared state, and every thread's results are compared with a single-threaded run
    for fl, q, t, envx in (('tsan', 60, 3000, TSAN_ENV), ('plain', 400, 30000, None)):
        am_ = run_cases(bins[('h_mt', fl)], 'c07mt', sd + 11, T(tier, q, t), opts=dict(max_n=T(tier, 16, 22)), env=envx, timeout=3600, source='h_mt(%s):c07mt' % fl, chunk=T(tier, 10, 50))
        v.absorb(am_, functional=True)
        per['h_mt:c07mt(%s)' % fl] = dict(cases=am_.evaluations, sanitizer_reports=len(am_.sanitizer_reports), crashes=len(am_.crashes), concurrent_library_calls=am_.summary.get('concurrent_library_calls', 0))
        total.evaluations += am_.evaluations; total.hashes |= {('mt:%s' % x) for x in am_.hashes}; total.all_hashes |= {('mt:%s' % x) for x in am_.all_hashes}
        total.tags.update({k: n for k, n in am_.tags.items() if k.startswith('threads=')})
    # the MPI entry points under ASan+UBSan inside real mpiexec jobs (leak detection off: OpenMPI's own start-up allocations are not parmcb's)
    import mpirun
    bm = lib.build('h_mpi', 'mpiasan')
    am = lib.Agg()
    menv = dict(os.environ, ASAN_OPTIONS='detect_leaks=0:halt_on_error=1:abort_on_error=0:exitcode=99:hard_rss_limit_mb=6000', UBSAN_OPTIONS='print_stacktrace=1:halt_on_error=1')
    for P in T(tier, [2, 3], [1, 2, 3, 5]):
        mpirun.run_mpi_cases(am, bm, sd + P, P, 0, T(tier, 12, 120), dict(max_n=T(tier, 14, 20), layout='natural', long_cycles_permille=0), T(tier, 300, 900), 'h_mpi(asan):P=%d' % P, MPI_ENTRIES, env=menv)
    # crashes of an MPI job surface as '<entry>:crash' violations of the runner: they are sanitizer/crash evidence here
    for vv in am.violations:
        if vv['key'].endswith(':crash') or vv['key'].endswith(':hang'):
            v.add('mpi-asan:' + vv['key'], vv)
    v.absorb(am, functional=False)
    per['h_mpi(asan+ubsan) P in %s' % T(tier, [2, 3], [1, 2, 3, 5])] = dict(cases=am.evaluations, sanitizer_reports=len(am.sanitizer_reports))
    total.evaluations += am.evaluations
    # valgrind memcheck for uninitialised-value use (ASan does not see it)
    vg = ['valgrind', '--quiet', '--error-exitcode=97', '--track-origins=no', '--leak-check=no', '--undef-value-errors=yes']
    for h, mode, q, t, opts in [('h_vec', 'c18gcd', 135, 400, {}), ('h_vec', 'c18vec', 120, 2000, {}), ('h_vec', 'c17', 100, 2000, {}), ('h_dimacs', 'c10', 300, 6000, {}), ('h_parts', 'c13', 40, 600, dict(max_n=40, large=0)),
                                ('h_parts', 'c16', 60, 1000, dict(max_n=30, large=0)), ('h_exact', 'c01', 16, 200, dict(max_n=12, large=0))]:
        a = run_cases(bins[(h, 'valgrind')], mode, sd + 5, T(tier, q, t), opts=opts, wrapper=vg, source='%s(memcheck):%s' % (h, mode), timeout=3600)
        for c in a.crashes:
            if c['rc'] == 97:
                a.sanitizer_reports.append(dict(kind='memcheck:error', parmcb_frame='parmcb' in c['stderr_tail'], inner=(re_first(r'(parmcb::[\w:]+)', c['stderr_tail']) or ''), text=c['stderr_tail'], idx=c['idx'], source=c['source']))
        a.crashes = [c for c in a.crashes if c['rc'] != 97]
        v.absorb(a, functional=False)
        per['%s:%s(memcheck)' % (h, mode)] = dict(cases=a.evaluations, reports=len(a.sanitizer_reports), crashes=len(a.crashes))
        total.evaluations += a.evaluations
    # the demo programs built with ASan+UBSan by the tree's own CMake
    demo_stats = dict(launches=0, reports=0)
    try:
        dem = lib.ensure_demos('asan', ['mcb-dimacs', 'approx-mcb-dimacs', 'collection-stats-dimacs'])
        tmp = tempfile.mkdtemp(prefix='c07-', dir=lib.tree_dir())
        rng = random.Random(seed)
        env = dict(os.environ); env.update(ASAN_ENV)
        for i in range(T(tier, 8, 120)):
            n, edges = dimacs_gen.gen_valid(rng, max_n=20)
            pth = os.path.join(tmp, 'f%d.dimacs' % i)
            if i % 4 == 3:
                n2, toks, kinds = dimacs_gen.make_invalid(rng, n, edges); dimacs_gen.write_dimacs(pth, n2, toks, rng, trailing_newline=rng.random() < 0.5)
            else:
                dimacs_gen.write_dimacs(pth, n, [(a_, b_, str(c_)) for a_, b_, c_ in edges], rng, trailing_newline=rng.random() < 0.5)
            for prog in dem:
                af, an = demos_mod.algo_flags(rng) if prog != 'collection-stats-dimacs' else ([], '')
                extra = ['--printcycles=true', '--parallel=%s' % rng.choice(['true', 'false'])] if prog != 'collection-stats-dimacs' else []
                r = demos_mod.run_proc([dem[prog]] + af + extra + [pth], 300, env=env); demo_stats['launches'] += 1
                for rep in lib.classify_stderr(r['err']):
                    rep['idx'] = i; rep['source'] = 'demo(asan):' + prog; rep['parmcb_frame'] = rep['parmcb_frame'] or ('/src/' in rep['text'])
                    demo_stats['reports'] += 1
                    v.add('sanitizer:%s:%s' % (rep['kind'], rep.get('inner', '')[:60]), dict(key=rep['kind'], detail='sanitizer report in demo program ' + prog, idx=i, source=rep['source'], observed=dict(report=rep['text'], file=open(pth).read()[:800])))
        shutil.rmtree(tmp, ignore_errors=True)
    except HarnessFailure as e:
        v.failures.append(str(e)[:1500])
    cov = base_coverage(total, 'the workloads of C01, C02, C03 (real oneTBB), C05 (with every returned descriptor dereferenced through the caller\'s weight map after return), C06, C10, C12-C18 repeated on builds with '
                        '-fsanitize=address,undefined -fno-sanitize-recover=all, _GLIBCXX_ASSERTIONS and the library\'s own asserts enabled, leak detection on; the C03 threaded workload under -fsanitize=thread on the '
                        'instrumented scheduler; valgrind memcheck slices for uninitialised-value use; the demo programs built with ASan+UBSan by the tree\'s CMake on generated valid and invalid files. Deciding observation: '
                        'zero reports. Generators include the empty graph, single vertex, edgeless graphs, forests, disconnected graphs, k=1 and k>=n. non-trivial/distinct = per-workload rule of the originating property, keyed by workload',
                        dict(per_workload=per, demo_asan=demo_stats, sanitizer_families=['address+undefined+leak', 'thread (shim)', 'memcheck']))
    return v.finish(cov, ['red-zone tools miss intra-object and far out-of-bounds accesses', 'references to temporaries of the stateless vertex-index map are never dereferenced for vecS graphs and therefore unobservable',
                          'races inside the prebuilt libtbb.so are out of scope (TSan runs on the shim only)'])


def re_first(pat, text):
    import re
    m = re.search(pat, text or '')
    return m.group(1) if m else None


CHECKS = {'C01': check_c01, 'C02': check_c02, 'C03': check_c03, 'C04': check_c04, 'C05': check_c05, 'C06': check_c06, 'C07': check_c07, 'C08': check_c08, 'C09': check_c09, 'C10': check_c10, 'C11': check_c11,
          'C12': check_c12, 'C13': check_c13, 'C14': check_c14, 'C15': check_c15, 'C16': check_c16, 'C17': check_c17, 'C18': check_c18, 'C20': check_c20}


def main():
    ap = argparse.ArgumentParser()
    ap.add_argument('prop')
    ap.add_argument('--tier', default=os.environ.get('VERIF_TIER') or 'quick')
    ap.add_argument('--replay')
    a = ap.parse_args()
    seed = int(os.environ.get('VERIF_SEED') or 1)
    if a.prop == '--build-all' or a.prop == 'build-all':
        return build_all()
    fn = CHECKS.get(a.prop)
    if not fn:
        print('unknown property', a.prop); return 2
    tier = a.tier if a.tier in ('quick', 'thorough') else 'quick'
    os.chdir(lib.VERIF)
    try:
        lib.prune_cache()
        if a.replay:
            import replay
            return replay.replay(a.prop, a.replay)
        return fn(tier, seed)
    except HarnessFailure as e:
        print('HARNESS-FAILURE property=%s %s' % (a.prop, str(e)[:4000]))
        return 2
    except Exception:
        traceback.print_exc()
        print('HARNESS-FAILURE property=%s internal error' % a.prop)
        return 2


ALL_BUILDS = [('h_exact', 'plain'), ('h_exact', 'asan'), ('h_approx', 'plain'), ('h_approx', 'asan'), ('h_parts', 'plain'), ('h_parts', 'asan'),
              ('h_vec', 'plain'), ('h_vec', 'asan'), ('h_dimacs', 'plain'), ('h_dimacs', 'asan'),
              ('h_sched', 'shim'), ('h_sched', 'tsan'), ('h_sched', 'plain'), ('h_mpi', 'mpi'), ('h_knob', 'plain'), ('h_knob', 'shim'), ('h_sched', 'asan'),
              ('h_vec', 'valgrind'), ('h_dimacs', 'valgrind'), ('h_parts', 'valgrind'), ('h_exact', 'valgrind'), ('h_mpi', 'mpiasan'), ('h_mt', 'tsan'), ('h_mt', 'plain')]


def build_all():
    """MANIFEST.setup_cmd: compile every harness flavour for the current tree (the checks would do it lazily anyway)"""
    try:
        os.chdir(lib.VERIF)
        lib.prune_cache()
        from concurrent.futures import ThreadPoolExecutor
        with ThreadPoolExecutor(max_workers=2) as ex:
            fd = ex.submit(lambda: (lib.ensure_demos('rel'), lib.ensure_demos('asan', ['mcb-dimacs', 'approx-mcb-dimacs', 'collection-stats-dimacs'])))
            build_many([p for p in ALL_BUILDS if os.path.exists(os.path.join(lib.VERIF, 'harness', p[0] + '.cpp'))])
            fd.result()
        return 0
    except HarnessFailure as e:
        print(str(e)[:4000]); return 2


if __name__ == '__main__':
    sys.exit(main())
