#!/usr/bin/env python3
"""Entry point of every quick/thorough command:  python3 vp/check.py <ID> [--tier quick|thorough] [--replay FILE]
Exit 0: property held on everything explored; 1: VIOLATION line(s) printed; 2: the harness itself failed."""
import os, sys, json, argparse, time, traceback

sys.path.insert(0, os.path.dirname(os.path.abspath(__file__)))
import lib
from lib import Verdict, run_cases, base_coverage, build_many, HarnessFailure

ASAN_ENV = {'ASAN_OPTIONS': 'abort_on_error=0:detect_leaks=1:detect_stack_use_after_return=1:halt_on_error=1:exitcode=99',
            'UBSAN_OPTIONS': 'print_stacktrace=1:halt_on_error=1', 'LSAN_OPTIONS': 'exitcode=98'}


def T(tier, q, t):
    return q if tier == 'quick' else t


# ------------------------------------------------------------------------------------------------
def check_c01(tier, seed, replay=None):
    v = Verdict('C01', tier, seed)
    bins = build_many([('h_exact', 'plain'), ('h_exact', 'asan')])
    n = T(tier, 1500, 40000)
    agg = run_cases(bins[('h_exact', 'plain')], 'c01', seed, n, opts=dict(max_n=T(tier, 40, 80)))
    v.absorb(agg)
    na = T(tier, 150, 3000)
    agg2 = run_cases(bins[('h_exact', 'asan')], 'c01', seed + 1000003, na, opts=dict(max_n=T(tier, 24, 40)), env=ASAN_ENV, source='h_exact(asan+asserts):c01')
    v.absorb(agg2)
    cov = base_coverage(agg, 'generated simple graphs (families in tallies; random numbering and insertion order), weight types double and int, three sequential exact variants each; '
                        'non-trivial = cycle space dimension >= 2; distinct = canonical hash of (n, sorted weighted edge list, weight type)',
                        dict(variants=['mcb_sva_signed', 'mcb_sva_fvs_trees', 'mcb_sva_iso_trees'], executions=agg.evaluations * 3,
                             asan_assert_slice=dict(evaluations=agg2.evaluations, distinct_nontrivial=len(agg2.hashes), sanitizer_reports=len(agg2.sanitizer_reports))))
    return v.finish(cov, ['graph generator families cover the quantifier only by sampling', 'independent validity monitor in harness/common/vcommon.hpp (check_basis) is correct',
                          'n <= %d' % T(tier, 40, 80)])


def check_c02(tier, seed, replay=None):
    v = Verdict('C02', tier, seed)
    bins = build_many([('h_exact', 'plain'), ('h_exact', 'asan')])
    n = T(tier, 1500, 40000)
    agg = run_cases(bins[('h_exact', 'plain')], 'c02', seed, n, opts=dict(max_n=T(tier, 30, 80)))
    v.absorb(agg)
    agg2 = run_cases(bins[('h_exact', 'asan')], 'c02', seed + 1000003, T(tier, 120, 2500), opts=dict(max_n=T(tier, 20, 36)), env=ASAN_ENV, source='h_exact(asan+asserts):c02')
    v.absorb(agg2)
    cov = base_coverage(agg, 'generated graphs biased to ties (unit/{1,2}/{1,2,3} weights, grids, hypercubes, K_ab, theta graphs); oracle = Horton candidates + GF(2) elimination in exact '
                        'integers, self-validated against brute force over all simple cycles on small graphs in every process; non-trivial = cycle space dimension >= 2',
                        dict(variants=['mcb_sva_signed', 'mcb_sva_fvs_trees', 'mcb_sva_iso_trees'], executions=agg.evaluations * 3,
                             tie_rich_nontrivial=agg.tags.get('tie_rich', 0),
                             asan_assert_slice=dict(evaluations=agg2.evaluations, sanitizer_reports=len(agg2.sanitizer_reports))))
    return v.finish(cov, ['Horton+Gauss oracle (cross-checked against brute force every run)', 'weights exactly summable (integers / dyadic doubles / int)'])


def check_c09(tier, seed, replay=None):
    v = Verdict('C09', tier, seed)
    bins = build_many([('h_exact', 'plain')])
    agg = run_cases(bins[('h_exact', 'plain')], 'c09', seed, T(tier, 1200, 30000), opts=dict(max_n=T(tier, 22, 40)))
    v.absorb(agg)
    cov = base_coverage(agg, 'graphs with decimal weights k/1000 (tie-rich sets {0.1,0.2,0.3,0.7}, one-decimal, arbitrary thousandths) and binary weights with 50-bit '
                        'mantissas in [1e-3,1e3] whose sums are inexact in double; six exact variants; oracle in exact integer units; tolerance relative 1e-9; '
                        'non-trivial = cycle space dimension >= 2',
                        dict(variants=list(range(6)), executions=agg.evaluations * 6))
    return v.finish(cov, ['oracle computed in exact integer arithmetic on the generator\'s units', 'real oneTBB scheduler for the *_tbb variants (schedules not controlled here, see C03)'])


def check_c08(tier, seed, replay=None):
    v = Verdict('C08', tier, seed)
    bins = build_many([('h_exact', 'plain')])
    agg = run_cases(bins[('h_exact', 'plain')], 'c08', seed, T(tier, 64, 1500), opts=dict(min_n=T(tier, 30, 40), max_n=T(tier, 160, 400), variants_per_xform=T(tier, 2, 6)), chunk=T(tier, 1, 4), timeout=1800)
    v.absorb(agg)
    cov = base_coverage(agg, 'base graphs with 30-400 vertices (sparse/dense random, grids, tori, hypercubes, cycles with chords, small families); six exact variants must agree; '
                        'ten transformed copies per base graph (relabel, edge order, both, heap layout via scrambling allocator, isolated vertices, pendant trees, disjoint union, '
                        'union+bridge, edge subdivision, power-of-two scaling) each run on a random subset of variants; exact equality in the exactly summable domain; '
                        'non-trivial = cycle space dimension >= 2',
                        dict(transforms_per_base=10))
    return v.finish(cov, ['relations are necessary conditions (no optimum oracle at this scale)', 'real oneTBB for *_tbb variants'])


CHECKS = {'C01': check_c01, 'C02': check_c02, 'C08': check_c08, 'C09': check_c09}


def main():
    ap = argparse.ArgumentParser()
    ap.add_argument('prop')
    ap.add_argument('--tier', default=os.environ.get('VERIF_TIER') or 'quick')
    ap.add_argument('--replay')
    a = ap.parse_args()
    seed = int(os.environ.get('VERIF_SEED') or 1)
    if a.prop == '--build-all' or a.prop == 'build-all':
        return build_all()
    fn = CHECKS.get(a.prop)
    if not fn:
        print('unknown property', a.prop); return 2
    tier = a.tier if a.tier in ('quick', 'thorough') else 'quick'
    os.chdir(lib.VERIF)
    try:
        lib.prune_cache()
        if a.replay:
            import replay
            return replay.replay(a.prop, a.replay)
        return fn(tier, seed)
    except HarnessFailure as e:
        print('HARNESS-FAILURE property=%s %s' % (a.prop, str(e)[:4000]))
        return 2
    except Exception:
        traceback.print_exc()
        print('HARNESS-FAILURE property=%s internal error' % a.prop)
        return 2


def build_all():
    try:
        pairs = [('h_exact', 'plain'), ('h_exact', 'asan')]
        build_many(pairs)
        return 0
    except HarnessFailure as e:
        print(str(e)[:4000]); return 2


if __name__ == '__main__':
    sys.exit(main())
