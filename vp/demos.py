"""Process-level monitors over the demo executables built from the current tree by its own CMake:
C11 (input gating, termination, printed result) and the demo half of C20 (--cores really limits TBB)."""
import os, re, subprocess, random, tempfile, shutil, json, time, signal, threading
from concurrent.futures import ThreadPoolExecutor
import lib, dimacs_gen, mpirun

WEIGHT_RE = re.compile(r'^MCB weight = (\S+)\s*$', re.M)


def run_proc(cmd, timeout, env=None):
    """returns dict(rc, out, err, timed_out)"""
    try:
        p = subprocess.Popen(cmd, stdout=subprocess.PIPE, stderr=subprocess.PIPE, text=True, errors='replace', env=env, start_new_session=True)
    except OSError as e:
        return dict(rc=-127, out='', err=str(e), timed_out=False)
    try:
        out, err = p.communicate(timeout=timeout)
        return dict(rc=p.returncode, out=out, err=err, timed_out=False)
    except subprocess.TimeoutExpired:
        try:
            os.killpg(p.pid, signal.SIGKILL)
        except OSError:
            pass
        try:
            out, err = p.communicate(timeout=20)
        except Exception:
            out, err = '', ''
        return dict(rc=-9, out=out, err=err, timed_out=True)


class Recorder:
    def __init__(self, kind='demo'):
        self.kind = kind
        self.lock = threading.Lock()
        self.agg = lib.Agg()
        self.launches = 0

    def case(self, h, nontrivial, tags, sample=None):
        with self.lock:
            a = self.agg
            a.evaluations += 1
            a.all_hashes.add(h)
            if nontrivial:
                a.hashes.add(h)
            for t in tags:
                a.tags[t] += 1
            if sample is not None and len(a.samples) < 6:
                a.samples.append(sample)

    def tag(self, t):
        with self.lock:
            self.agg.tags[t] += 1

    def viol(self, key, detail, case, observed=None, idx=None):
        with self.lock:
            self.agg.violations.append(dict(key=key, detail=detail, case=case, observed=observed or {}, idx=idx, source='demos', tags=[], rerun=dict(kind=self.kind, idx=idx)))

    def inconclusive(self, msg):
        with self.lock:
            self.agg.inconclusive.append(msg)


def algo_flags(rng):
    a = rng.randrange(3)
    if a == 0:
        return rng.choice([[], ['--signed=true']]), 'signed'
    if a == 1:
        return ['--signed=false', '--fvstrees=true'], 'fvstrees'
    return rng.choice([['--signed=false', '--isotrees=true'], ['--signed=false']]), 'isotrees'


def misc_flags(rng, with_parallel=True):
    f = []
    par = True
    if with_parallel:
        par = rng.random() < 0.6
        f.append('--parallel=%s' % ('true' if par else 'false'))
        if rng.random() < 0.7:
            f.append('--cores=%d' % rng.choice([0, 1, 2, 4]))
    if rng.random() < 0.4:
        f.append(rng.choice(['--verbose=true', '--verbose=1', '--verbose=false']))
    if rng.random() < 0.4:
        f.append(rng.choice(['--printcycles=true', '--printcycles=false']))
    return f, par


def parse_weight(out):
    m = WEIGHT_RE.findall(out)
    if len(m) != 1:
        return None
    try:
        return float(m[0])
    except ValueError:
        return None


def check_valid_file(rec, demos, rng, idx, path, n, edges, opt, dim, tier, timeout, mpi_ranks):
    combos = 3 if tier == 'quick' else 5
    case0 = dict(file_n=n, file_m=len(edges), optimum=opt, cycle_space_dim=dim)
    # mcb-dimacs
    for _ in range(combos):
        af, an = algo_flags(rng); mf, par = misc_flags(rng)
        cmd = [demos['mcb-dimacs']] + af + mf + [path]
        r = run_proc(cmd, timeout); rec.launches += 1
        case = dict(case0, cmd=' '.join(cmd[1:-1]), program='mcb-dimacs')
        tagk = 'mcb-dimacs[%s,%s]' % (an, 'parallel' if par else 'sequential')
        if r['timed_out']:
            rec.viol('mcb-dimacs:hang_on_valid_input', 'did not terminate within %ds on a valid file' % timeout, case, idx=idx); continue
        w = parse_weight(r['out'])
        if r['rc'] != 0:
            rec.viol('mcb-dimacs:nonzero_on_valid_input', 'exit status %d on a valid file (%s)' % (r['rc'], tagk), case, dict(stderr=r['err'][-500:]), idx)
        elif w is None:
            rec.viol('mcb-dimacs:no_weight_line', 'no single "MCB weight = X" line on stdout (%s)' % tagk, case, dict(stdout=r['out'][-500:]), idx)
        elif w != float(opt):
            rec.viol('mcb-dimacs:wrong_weight', 'printed MCB weight %s, optimum is %d (%s)' % (w, opt, tagk), case, dict(stdout=r['out'][-500:]), idx)
        rec.tag(tagk)
    # approx-mcb-dimacs
    for _ in range(combos):
        af, an = algo_flags(rng); mf, par = misc_flags(rng)
        k = rng.choice([2, 2, 3, 4])
        bad_k = rng.random() < 0.12
        if bad_k:
            k = rng.choice([0, 1])
        cmd = [demos['approx-mcb-dimacs']] + af + mf + ['--k=%d' % k, path]
        r = run_proc(cmd, timeout); rec.launches += 1
        case = dict(case0, cmd=' '.join(cmd[1:-1]), program='approx-mcb-dimacs', k=k)
        if r['timed_out']:
            rec.viol('approx-mcb-dimacs:hang', 'did not terminate within %ds' % timeout, case, idx=idx); continue
        if bad_k:
            if r['rc'] == 0 or not r['err'].strip() or WEIGHT_RE.search(r['out']):
                rec.viol('approx-mcb-dimacs:k_le_1_not_rejected', 'k=%d must be rejected with a diagnostic and non-zero status (status %d)' % (k, r['rc']), case, dict(stdout=r['out'][-300:], stderr=r['err'][-300:]), idx)
            rec.tag('approx[k<=1 rejected]')
            continue
        w = parse_weight(r['out'])
        if r['rc'] != 0:
            rec.viol('approx-mcb-dimacs:nonzero_on_valid_input', 'exit status %d on a valid file' % r['rc'], case, dict(stderr=r['err'][-500:]), idx)
        elif w is None:
            rec.viol('approx-mcb-dimacs:no_weight_line', 'no single "MCB weight = X" line', case, dict(stdout=r['out'][-500:]), idx)
        elif not (opt <= w <= (2 * k - 1) * opt):
            rec.viol('approx-mcb-dimacs:weight_out_of_bounds', 'printed weight %s not in [OPT, (2k-1)OPT] = [%d, %d]' % (w, opt, (2 * k - 1) * opt), case, dict(stdout=r['out'][-500:]), idx)
        rec.tag('approx[%s,%s,k=%d]' % (an, 'parallel' if par else 'sequential', k))
    # collection-stats-dimacs
    r = run_proc([demos['collection-stats-dimacs'], path], timeout); rec.launches += 1
    if r['timed_out']:
        rec.viol('collection-stats-dimacs:hang', 'did not terminate', dict(case0, program='collection-stats-dimacs'), idx=idx)
    elif r['rc'] != 0:
        rec.viol('collection-stats-dimacs:nonzero_on_valid_input', 'exit status %d on a valid file' % r['rc'], dict(case0, program='collection-stats-dimacs'), dict(stderr=r['err'][-500:]), idx)
    # mcb-dimacs-mpi
    for P in mpi_ranks:
        af, an = algo_flags(rng)
        mf = [x for x in misc_flags(rng, with_parallel=False)[0]]
        cmd = mpirun.MPIEXEC + ['-n', str(P), demos['mcb-dimacs-mpi']] + af + mf + [path]
        r = run_proc(cmd, timeout * 2); rec.launches += 1
        case = dict(case0, cmd=' '.join(cmd[len(mpirun.MPIEXEC) + 3:-1]), program='mcb-dimacs-mpi', ranks=P)
        if r['timed_out']:
            r2 = run_proc(cmd, timeout * 2)
            if r2['timed_out']:
                rec.viol('mcb-dimacs-mpi:hang_on_valid_input', 'job with %d ranks did not terminate within %ds twice' % (P, timeout * 2), case, idx=idx)
            else:
                rec.inconclusive('mcb-dimacs-mpi P=%d watchdog fired once and not again' % P)
            continue
        w = parse_weight(r['out'])
        if r['rc'] != 0:
            rec.viol('mcb-dimacs-mpi:nonzero_on_valid_input', 'mpiexec -n %d returned %d on a valid file (%s)' % (P, r['rc'], an), case, dict(stderr=r['err'][-500:], stdout=r['out'][-300:]), idx)
        elif w is None:
            rec.viol('mcb-dimacs-mpi:no_weight_line', 'no single "MCB weight = X" line with %d ranks (%s)' % (P, an), case, dict(stdout=r['out'][-500:]), idx)
        elif w != float(opt):
            rec.viol('mcb-dimacs-mpi:wrong_weight', 'printed %s with %d ranks (%s), optimum %d' % (w, P, an, opt), case, dict(stdout=r['out'][-500:]), idx)
        rec.tag('mcb-dimacs-mpi[%s,P=%d]' % (an, P))


def check_large_valid_file(rec, demos, rng, idx, path, n, m, opt, dim, timeout):
    """valid files with tens of thousands of vertices: only the signed variants are affordable there (the tree-based ones need
    minutes and gigabytes), collection-stats is skipped for the same reason"""
    case0 = dict(n=n, m=m, optimum=opt, cycle_space_dim=dim, file='(%d lines; head) ' % (m + 1) + open(path).read()[:300])
    runs = []
    for par in (False, True):
        mf = ['--parallel=%s' % ('true' if par else 'false')] + (['--cores=%d' % rng.choice([1, 2, 4])] if par else []) + rng.choice([[], ['--signed=true'], ['--verbose=false']])
        runs.append(('mcb-dimacs', [demos['mcb-dimacs']] + mf + [path], None))
    k = rng.choice([2, 3])
    runs.append(('approx-mcb-dimacs', [demos['approx-mcb-dimacs'], '--k=%d' % k, '--parallel=%s' % rng.choice(['true', 'false']), path], k))
    runs.append(('mcb-dimacs-mpi', mpirun.MPIEXEC + ['-n', '2', demos['mcb-dimacs-mpi'], path], None))
    for prog, cmd, k in runs:
        r = run_proc(cmd, timeout); rec.launches += 1
        case = dict(case0, program=prog, cmd=' '.join(x for x in cmd if x.startswith('--')))
        if r['timed_out']:
            r = run_proc(cmd, timeout)
            if r['timed_out']:
                rec.viol('%s:hang_on_valid_input' % prog, 'did not terminate within %ds twice on a valid file with %d vertices' % (timeout, n), case, idx=idx)
            else:
                rec.inconclusive('%s on a large file: watchdog fired once and not again' % prog)
            continue
        w = parse_weight(r['out'])
        if r['rc'] != 0:
            rec.viol('%s:nonzero_on_valid_input' % prog, 'exit status %d on a valid file with %d vertices and %d edges' % (r['rc'], n, m), case, dict(stderr=r['err'][-500:], stdout=r['out'][-300:]), idx)
        elif w is None:
            rec.viol('%s:no_weight_line' % prog, 'no single "MCB weight = X" line on stdout (n=%d)' % n, case, dict(stdout=r['out'][-500:]), idx)
        elif k is None and w != float(opt):
            rec.viol('%s:wrong_weight' % prog, 'printed MCB weight %s, optimum is %d (n=%d)' % (w, opt, n), case, dict(stdout=r['out'][-500:]), idx)
        elif k is not None and not (opt <= w <= (2 * k - 1) * opt):
            rec.viol('approx-mcb-dimacs:weight_out_of_bounds', 'printed weight %s not in [OPT, (2k-1)OPT] = [%d, %d] (n=%d)' % (w, opt, (2 * k - 1) * opt, n), case, dict(stdout=r['out'][-500:]), idx)
        rec.tag('%s[large file, signed]' % prog)


def check_invalid_file(rec, demos, rng, idx, path, kinds, tier, timeout, mpi_ranks):
    case0 = dict(violations=kinds, file=open(path).read()[:600])
    def judge(prog, r, case):
        if r['timed_out']:
            return 'hang_on_invalid_input', 'did not terminate within the watchdog on a file with %s' % '+'.join(kinds)
        if r['rc'] == 0:
            return 'invalid_input_accepted', 'exit status 0 on a file with %s' % '+'.join(kinds)
        if re.search(r'^(MCB weight|MCB cycles|FVS cycles|ISO cycles|HORTON cycles)', r['out'], re.M):
            return 'algorithm_ran_on_invalid_input', 'an algorithm ran and reported on a file with %s' % '+'.join(kinds)
        if not r['err'].strip() and not re.search(r'(abort|invalid|loop|multiple|parallel|negative|positive|weight)', r['out'], re.I):
            return 'no_diagnostic', 'rejected a file with %s without any diagnostic' % '+'.join(kinds)
        return None, None
    for prog in ('mcb-dimacs', 'approx-mcb-dimacs', 'collection-stats-dimacs'):
        extra = []
        if prog != 'collection-stats-dimacs':
            af, an = algo_flags(rng); mf, par = misc_flags(rng); extra = af + mf
        cmd = [demos[prog]] + extra + [path]
        r = run_proc(cmd, timeout); rec.launches += 1
        k, d = judge(prog, r, case0)
        if k:
            rec.viol('%s:%s' % (prog, k), d, dict(case0, program=prog, cmd=' '.join(extra)), dict(stdout=r['out'][-300:], stderr=r['err'][-300:], rc=r['rc']), idx)
        rec.tag('%s[invalid:%s]' % (prog, '+'.join(kinds)))
    for P in mpi_ranks:
        af, an = algo_flags(rng)
        cmd = mpirun.MPIEXEC + ['-n', str(P), demos['mcb-dimacs-mpi']] + af + [path]
        r = run_proc(cmd, timeout); rec.launches += 1
        if r['timed_out']:
            r = run_proc(cmd, timeout)   # one automatic re-run: only a reproduced hang counts
            if not r['timed_out']:
                rec.inconclusive('mcb-dimacs-mpi P=%d on invalid input: watchdog fired once and not again' % P)
        k, d = judge('mcb-dimacs-mpi', r, case0)
        if k:
            rec.viol('mcb-dimacs-mpi:%s' % k, d + ' [%d ranks]' % P, dict(case0, program='mcb-dimacs-mpi', ranks=P, cmd=' '.join(af)), dict(stdout=r['out'][-300:], stderr=r['err'][-300:], rc=r['rc']), idx)
        rec.tag('mcb-dimacs-mpi[invalid,P=%d]' % P)


def check_c11(tier, seed, only=None):
    v = lib.Verdict('C11', tier, seed)
    demos = lib.ensure_demos('rel')
    rec = Recorder('c11')
    nfiles = 45 if tier == 'quick' else 720
    ranks_all = [1, 2, 3, 4, 8]
    tmp = tempfile.mkdtemp(prefix='c11-', dir=lib.tree_dir())
    timeout = 60 if tier == 'quick' else 120

    nlarge = 3 if tier == 'quick' else 16

    def one(i):
        rng = random.Random(seed * 1000003 + i)
        path = os.path.join(tmp, 'g%d.dimacs' % i)
        if i >= nfiles:
            n, E, opt, dim = dimacs_gen.gen_large_valid(rng)
            dimacs_gen.write_dimacs(path, n, [(u, w_, str(x)) for u, w_, x in E], rng, trailing_newline=rng.random() < 0.8, omit_unit=rng.random() < 0.6)
            check_large_valid_file(rec, demos, rng, i, path, n, len(E), opt, dim, 300)
            rec.case('large-%d-%d' % (seed, i), dim >= 1, ['valid', 'large:n>=46341'] + (['large:n>65535'] if n > 65535 else []), dict(kind='valid-large', n=n, m=len(E), optimum=opt, cycle_space_dim=dim))
            os.unlink(path)
            return
        n, edges = dimacs_gen.gen_valid(rng, max_n=22 if tier == 'quick' else 36)
        ranks = rng.sample(ranks_all, 2 if tier == 'quick' else 3)
        if max(ranks) < 2:
            ranks[0] = rng.choice([2, 3, 4])
        if i % 3 == 2:
            # four of five invalid files violate exactly one precondition (loop, parallel, non-positive, parallel again - the predicate for
            # parallel edges is the one whose answer depends on where in the file the copy stands), the fifth a random combination
            j = i // 3
            n2, toks, kinds = dimacs_gen.make_invalid(rng, n, edges, only=[0, 1, 2, 1, None][j % 5])
            # the generator is validated against the definitions before its file is used as an oracle
            pairs = [(min(a_, b_), max(a_, b_)) for a_, b_, c_ in toks]
            if not (any(a_ == b_ for a_, b_ in pairs) or len(set(pairs)) < len(pairs) or any(float(c_) <= 0 for a_, b_, c_ in toks)):
                rec.inconclusive('generator produced no precondition violation for case %d' % i)
                return
            dimacs_gen.write_dimacs(path, n2, toks, rng, trailing_newline=rng.random() < 0.8)
            check_invalid_file(rec, demos, rng, i, path, kinds, tier, timeout, ranks)
            rec.case('inv-%d-%d' % (seed, i), True, ['invalid:' + '+'.join(kinds)], dict(kind='invalid', violations=kinds, file_head=open(path).read()[:200]))
        else:
            opt, dim = dimacs_gen.mcb_optimum(n, edges)
            dimacs_gen.write_dimacs(path, n, [(u, w_, str(x)) for u, w_, x in edges], rng, trailing_newline=rng.random() < 0.8, omit_unit=rng.random() < 0.6)
            check_valid_file(rec, demos, rng, i, path, n, edges, opt, dim, tier, timeout, ranks)
            rec.case('val-%d-%d' % (seed, i), dim >= 1, ['valid'] + (['forest'] if dim == 0 else []), dict(kind='valid', n=n, m=len(edges), optimum=opt, cycle_space_dim=dim))
        os.unlink(path)
    try:
        with ThreadPoolExecutor(max_workers=8) as ex:
            list(ex.map(one, range(nfiles + nlarge) if only is None else only))
    finally:
        shutil.rmtree(tmp, ignore_errors=True)
    v.absorb(rec.agg)
    cov = lib.base_coverage(rec.agg, 'generated DIMACS files (a few valid files with 46341..70000 vertices - small cyclic core plus pendant forest, signed variants only - and otherwise 2/3 valid: random, grids, cycles with chords, complete, bipartite, trees, disconnected, weights of 1 written or omitted at random so that weighted and weight-less lines mix; 1/3 invalid: self-loop / parallel edge / weight <= 0 and combinations at random positions) '
                            'fed to mcb-dimacs, approx-mcb-dimacs, collection-stats-dimacs and mcb-dimacs-mpi (mpiexec -n P, P sampled from {1,2,3,4,8}) under random option combinations '
                            '(algorithm x --parallel x --cores x --verbose x --printcycles, k in 0..4); oracle: exit status, stderr diagnostic, absence/presence and value of the "MCB weight" line against an '
                            'independent Python Horton+Gauss optimum, termination within a watchdog (one re-run); non-trivial = invalid file, or valid file with a cycle; distinct by file',
                            dict(process_launches=rec.launches))
    return v.finish(cov, ['integer weights with totals < 1e6 so the printed weight is exact', 'a dispatch that runs a different exact algorithm than requested is invisible (the property is about the printed result)'])


# ------------------------------------------------------------------------------------------------
def tbbwatch_run(cmd, preload, timeout):
    """run a production demo under the tbbwatch interposer; returns (proc result, observation dict or None)"""
    fd, tf = tempfile.mkstemp(prefix='tbbw-', dir=lib.tree_dir()); os.close(fd)
    env = dict(os.environ, LD_PRELOAD=preload, TBBWATCH_OUT=tf)
    r = run_proc(cmd, timeout, env=env)
    try:
        obs = json.loads(open(tf).read())
    except (OSError, ValueError):
        obs = None
    try:
        os.unlink(tf)
    except OSError:
        pass
    return r, obs


def c20_demo_part(rec, tier, seed, only=None):
    demos = lib.ensure_demos('rel', ['mcb-dimacs', 'approx-mcb-dimacs'])
    preload = lib.build_c('tbbwatch.so', 'preload/tbbwatch.c', '-shared -fPIC -O2')
    tmp = tempfile.mkdtemp(prefix='c20-', dir=lib.tree_dir())
    n_cases = 40 if tier == 'quick' else 800
    files = []
    rng0 = random.Random(seed)
    hw = os.cpu_count() or 1
    for f in range(3 if tier == 'quick' else 10):
        n, edges = dimacs_gen.big_graph(rng0, n=rng0.choice([60, 100, 150]), m=rng0.choice([150, 300, 450]))
        p = os.path.join(tmp, 'big%d.dimacs' % f)
        dimacs_gen.write_dimacs(p, n, [(u, v, str(w)) for u, v, w in edges], rng0)
        files.append(p)

    def one(i):
        rng = random.Random(seed * 7919 + i)
        prog = rng.choice(['mcb-dimacs', 'approx-mcb-dimacs'])
        path = rng.choice(files)
        af, an = algo_flags(rng)
        extra = []
        if rng.random() < 0.6:
            extra.append(rng.choice(['--verbose=true', '--verbose=1', '--verbose=false']))
        if rng.random() < 0.3:
            extra.append('--printcycles=true')
        if prog == 'approx-mcb-dimacs':
            extra.append('--k=%d' % rng.choice([2, 3]))
        cores = rng.choice([1, 2, 3, 4, 8, 0])
        cmd = [demos[prog]] + af + extra + ['--parallel=true', '--cores=%d' % cores, path]
        r, obs = tbbwatch_run(cmd, preload, 600)
        want = cores if cores > 0 else hw
        case = dict(program=prog, cmd=' '.join(cmd[1:-1]), expected_active_value=want)
        tags = ['demo:%s' % prog, 'cores=%d' % cores, 'algo:' + an] + [e for e in extra if 'verbose' in e]
        if r['timed_out'] or r['rc'] != 0 or obs is None:
            rec.inconclusive('demo run failed (rc=%s, timed_out=%s): %s' % (r['rc'], r['timed_out'], case['cmd']))
            return
        seen = {int(k): v for k, v in obs.get('active_values', {}).items()}
        if cores == 0 and len(seen) == 1:
            want = list(seen)[0]     # "all hardware threads" as the program itself determines them
        wrong = {k: v for k, v in seen.items() if k != want}
        if wrong:
            rec.viol('demo:cores_not_applied', '%s %s: %d of %d parallel regions ran while tbb max_allowed_parallelism was %s instead of %d' % (prog, case['cmd'], sum(wrong.values()), obs['regions'], sorted(wrong), want), case, obs, i)
        discriminating = obs.get('regions', 0) >= 1 and want != hw
        rec.case('demo-%d-%d' % (seed, i), discriminating, tags + (['discriminating'] if discriminating else ['non_discriminating']), dict(cmd=case['cmd'], observed=obs))
        with rec.lock:
            rec.agg.summary['parallel_regions_observed'] += obs.get('regions', 0)
    try:
        with ThreadPoolExecutor(max_workers=4) as ex:
            list(ex.map(one, range(n_cases) if only is None else only))
    finally:
        shutil.rmtree(tmp, ignore_errors=True)


def check_c20(tier, seed):
    v = lib.Verdict('C20', tier, seed)
    bins = lib.build_many([('h_knob', 'plain'), ('h_knob', 'shim')])
    # library half: one call sequence per fresh process
    agg = lib.run_cases(bins[('h_knob', 'plain')], 'c20', seed, 60 if tier == 'quick' else 600, chunk=1, nproc=4, timeout=600, max_samples=1, source='h_knob(oneTBB):c20')
    v.absorb(agg)
    # deterministic second view: lifetime of the control object as seen by the instrumented global_control
    agg2 = lib.run_cases(bins[('h_knob', 'shim')], 'c20', seed + 17, 40 if tier == 'quick' else 400, chunk=1, nproc=8, timeout=600, max_samples=1, opts=dict(n=40, m=90), source='h_knob(shim):c20')
    v.absorb(agg2)
    rec = Recorder('c20demo')
    c20_demo_part(rec, tier, seed)
    v.absorb(rec.agg)
    total = lib.Agg()
    for a in (agg, agg2, rec.agg):
        total.evaluations += a.evaluations; total.hashes |= a.hashes; total.all_hashes |= a.all_hashes; total.tags.update(a.tags); total.samples += a.samples[:3]
    cov = lib.base_coverage(total, 'library half: random call sequences n1..n4 over {1,2,3,4,8}, one sequence per fresh process, real oneTBB; after every call tbb::global_control::active_value must equal n (also after two '
                            'library calls), and - only while no earlier call of the process allowed more - the number of distinct threads that evaluate an instrumented weight map during mcb_sva_signed_tbb and '
                            'mcb_sva_fvs_trees_tbb on a 150-vertex graph must be exactly 1 for n=1 (for n >= 2 the count is recorded only: oneTBB may rotate pool threads through the n-1 worker slots); the same sequences against the '
                            'instrumented global_control of the shim; demo half: the PRODUCTION binaries mcb-dimacs / approx-mcb-dimacs with --parallel=true --cores n and random unrelated flags run under an LD_PRELOAD interposer '
                            'on tbb::detail::r1::execute_and_wait that samples global_control_active_value at every parallel region: every region must see n (hardware concurrency for n=0); non-trivial demo run = at least one region and n != default',
                            dict(library_sequences=agg.evaluations, shim_sequences=agg2.evaluations, demo_runs=rec.agg.evaluations, demo_runs_discriminating=rec.agg.tags.get('discriminating', 0), demo_parallel_regions_observed=rec.agg.summary.get('parallel_regions_observed', 0),
                                 sequences_with_thread_identity_bound=agg.tags.get('thread_identity_bound_applied', 0), sequences_with_decrease=agg.tags.get('has_decrease', 0)))
    return v.finish(cov, ['verdicts are upper bounds a correct knob always satisfies, so machine load cannot raise an alarm', 'oneTBB 2021.8 semantics of global_control (smallest active value wins)'])
