#!/bin/bash
# usage: vp/seed_verify.sh <worktree> <seeded-name> [demo build+run command template with %INC% placeholder]
# Confirms an independently produced breaking change: tests still pass with it, demo fails with it and passes without it.
set -u
WT=$1; NAME=$2; CMD=${3:-'g++ -std=c++14 -O2 -w -I%INC% -I'$WT'/_build/include demo/demo.cpp -o /tmp/seed-demo-$$ -ltbb -lboost_timer -lpthread && /tmp/seed-demo-$$'}
OUT=/verif/seeded/$NAME; mkdir -p $OUT
cd $WT || exit 2
git diff > $OUT/patch.diff
[ -s $OUT/patch.diff ] || { echo "empty diff"; exit 2; }
cp -r demo/. $OUT/demo 2>/dev/null; rm -f $OUT/demo/demo $OUT/demo/*.o
echo "== build + ctest WITH the change"
( cmake -S . -B _build -G Ninja -DCMAKE_BUILD_TYPE=RelWithDebInfo -DCMAKE_CXX_FLAGS=-Wno-error >/dev/null && cmake --build _build 2>&1 | tail -1 && ctest --test-dir _build 2>&1 | grep -E "tests passed|tests failed" ) | tee $OUT/ctest_with_change.txt
echo "== demo WITH the change (expect failure)"
C1=${CMD//%INC%/$WT/include}; ( eval "$C1" ) > $OUT/demo_with_change.txt 2>&1; RC1=$?; tail -3 $OUT/demo_with_change.txt; echo "rc=$RC1"
echo "== demo WITHOUT the change (expect success)"
P=/tmp/seed-pristine-$$; rm -rf $P; mkdir -p $P; git archive HEAD include src | tar -x -C $P
C2=${CMD//%INC%/$P/include}; C2=${C2//$WT\/src/$P/src}; ( eval "$C2" ) > $OUT/demo_without_change.txt 2>&1; RC2=$?; tail -3 $OUT/demo_without_change.txt; echo "rc=$RC2"
rm -rf $P /tmp/seed-demo-$$
echo "SUMMARY name=$NAME with_change_rc=$RC1 without_change_rc=$RC2"
