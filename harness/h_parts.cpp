// Monitors for the public building blocks: C12 (shortest-path trees), C13 (greedy_fvs),
// C14 (candidate cycle collections), C16 (ForestIndex).
#include "common/scramble_alloc.hpp"
#define VF_NO_TBB_VARIANTS 1
#include "common/vcommon.hpp"
#include <parmcb/config.hpp>
#include <parmcb/sptrees.hpp>
#include <parmcb/detail/cycles.hpp>
#include <parmcb/detail/fvs.hpp>
#include <parmcb/forestindex.hpp>

using namespace vf;

template<class W> static const char* wname();
template<> const char* wname<double>() { return "double"; }
template<> const char* wname<int>() { return "int"; }
template<class W> static bool units_of(const GraphSpec &s, W v, ll &u);
template<> bool units_of<double>(const GraphSpec &s, double v, ll &u) { double x = std::ldexp(v, s.wshift); if (!std::isfinite(x) || std::fabs(x) > 9e18 || x != std::floor(x)) return false; u = (ll) x; return true; }
template<> bool units_of<int>(const GraphSpec &, int v, ll &u) { u = v; return true; }

static std::string pcase(const GraphSpec &s, const char *what, const char *wt) { return J().str("component", what).str("weight_type", wt).raw("graph", spec_json(s)).done(); }

// the weight map is a template parameter of every building block: the interior edge_weight map (an empty class) and a
// stateful one (associative_property_map over a std::map owned by the caller) are both exercised
template<class W, bool Ext> struct WmSel;
template<class W> struct WmSel<W, false> {
    typedef typename BG<W>::WMap type; typedef std::map<typename BG<W>::Edge, W> Store;
    static type make(typename BG<W>::Graph &g, Store &) { return boost::get(boost::edge_weight, g); }
};
template<class W> struct WmSel<W, true> {
    typedef std::map<typename BG<W>::Edge, W> Store; typedef boost::associative_property_map<Store> type;
    static type make(typename BG<W>::Graph &g, Store &st) { auto w = boost::get(boost::edge_weight, g); for (auto e : boost::make_iterator_range(boost::edges(g))) st[e] = boost::get(w, e); return type(st); }
};

// ------------------------------------------------------------------------------------------------
// C12
// ------------------------------------------------------------------------------------------------
template<class W, bool Ext>
static void run_c12(CaseOut &co, const GraphSpec &s, long &pairs, long &subpaths) {
    typedef typename BG<W>::Graph G; typedef typename WmSel<W, Ext>::type WM;
    G g; build_graph<W>(s, g); typename WmSel<W, Ext>::Store store; WM w = WmSel<W, Ext>::make(g, store);
    if (Ext) co.tag("weightmap:external_std_map");
    auto index_map = boost::get(boost::vertex_index, g);
    EdgeIndex<W> idx(s, g);
    int n = s.n;
    std::string cj = pcase(s, "SPTree", wname<W>());
    std::vector<parmcb::SPTree<G, WM>> trees;
    trees.reserve(n);
    for (int r = 0; r < n; r++) trees.emplace_back((size_t) r, g, index_map, w, (size_t) r);
    // path[u][v]: vertex sequence u..v following pred() in the tree rooted at u (empty if unreachable / broken)
    std::vector<std::vector<std::vector<int>>> path(n, std::vector<std::vector<int>>(n));
    bool ok = true;
    auto fail = [&](const std::string &kind, const std::string &msg) { if (ok) co.viol("sptree:" + kind, msg, cj, spec_text(s)); ok = false; };
    for (int r = 0; r < n && ok; r++) {
        std::vector<ll> d = exact_dijkstra(s, r);
        auto &t = trees[r];
        if ((int) t.source() != r) fail("source", "source() != construction source");
        long nonroot = 0, childlinks = 0;
        for (int v = 0; v < n && ok; v++) {
            auto nd = t.node(v);
            if ((nd == nullptr) != (d[v] < 0)) { fail("reachability", "tree rooted at " + std::to_string(r) + ": node(" + std::to_string(v) + ") is " + (nd ? "present" : "absent") + " but the vertex is " + (d[v] < 0 ? "unreachable" : "reachable")); break; }
            if (!nd) continue;
            if ((int) nd->vertex() != v) { fail("vertex", "node(v)->vertex() != v"); break; }
            ll wu; if (!units_of<W>(s, nd->weight(), wu) || wu != d[v]) { fail("distance", "tree rooted at " + std::to_string(r) + ": weight of " + std::to_string(v) + " is " + std::to_string((double) nd->weight()) + ", true distance " + std::to_string(d[v]) + " units"); break; }
            if (v == r) { if (nd->has_pred()) fail("root_pred", "root has a predecessor"); }
            else { nonroot++; if (!nd->has_pred()) { fail("pred", "non-root reachable vertex without predecessor"); break; } }
            childlinks += (long) nd->children().size();
            for (auto &c : nd->children()) {
                if (!c || !c->has_pred()) { fail("children", "child without predecessor"); break; }
                int ei = idx.lookup(c->pred(), n);
                if (ei < 0) { fail("pred_edge", "pred() is not an edge of the graph"); break; }
                int a = s.edges[ei].u, b = s.edges[ei].v; int cv = (int) c->vertex();
                if (!((a == v && b == cv) || (b == v && a == cv))) { fail("children", "child list of " + std::to_string(v) + " contains " + std::to_string(cv) + " whose pred edge does not join them"); break; }
            }
            // walk to the root
            std::vector<int> pv; std::vector<char> seen(n, 0); int cur = v; ll sum = 0; bool broken = false;
            while (true) {
                if (seen[cur]) { fail("pred_cycle", "following pred() from " + std::to_string(v) + " repeats vertex " + std::to_string(cur)); broken = true; break; }
                seen[cur] = 1; pv.push_back(cur);
                auto cn = t.node(cur);
                if (!cn) { fail("pred", "pred() walk reached a vertex without node"); broken = true; break; }
                if (!cn->has_pred()) break;
                int ei = idx.lookup(cn->pred(), n);
                if (ei < 0) { fail("pred_edge", "pred() is not an edge of the graph"); broken = true; break; }
                int a = s.edges[ei].u, b = s.edges[ei].v;
                if (a != cur && b != cur) { fail("pred_edge", "pred() edge of " + std::to_string(cur) + " is not incident to it"); broken = true; break; }
                sum += s.edges[ei].w; cur = (a == cur) ? b : a;
            }
            if (broken) break;
            if (cur != r) { fail("pred", "pred() walk from " + std::to_string(v) + " ends at " + std::to_string(cur) + " instead of the root " + std::to_string(r)); break; }
            if (sum != d[v]) { fail("path_weight", "pred-edge weights from " + std::to_string(v) + " sum to " + std::to_string(sum) + ", weight() says " + std::to_string(d[v])); break; }
            std::reverse(pv.begin(), pv.end());
            int want_first = pv.size() >= 2 ? pv[1] : r;
            if (v != r /* the label of the root itself is not part of the property */ && (int) t.first(v) != want_first) { fail("first", "tree rooted at " + std::to_string(r) + ": first(" + std::to_string(v) + ") = " + std::to_string(t.first(v)) + ", the path passes through child " + std::to_string(want_first)); break; }
            path[r][v] = pv;
        }
        if (ok && childlinks != nonroot) fail("children", "tree rooted at " + std::to_string(r) + ": " + std::to_string(childlinks) + " child links for " + std::to_string(nonroot) + " non-root nodes");
    }
    // cross-source consistency
    for (int u = 0; u < n && ok; u++) for (int v = 0; v < n && ok; v++) {
        if (u == v || path[u][v].empty()) continue;
        pairs++;
        const auto &P = path[u][v];
        std::vector<int> rev(path[v][u].rbegin(), path[v][u].rend());
        if (rev != P) { fail("symmetry", "tree path " + std::to_string(u) + "->" + std::to_string(v) + " is not the reverse of tree path " + std::to_string(v) + "->" + std::to_string(u)); break; }
        for (size_t i = 0; i < P.size() && ok; i++) for (size_t j = i + 1; j < P.size(); j++) {
            if (i == 0 && j + 1 == P.size()) continue;
            subpaths++;
            const auto &Q = path[P[i]][P[j]];
            if (Q.size() != j - i + 1 || !std::equal(Q.begin(), Q.end(), P.begin() + i)) {
                fail("subpath", "sub-path " + std::to_string(P[i]) + ".." + std::to_string(P[j]) + " of the chosen path " + std::to_string(u) + "->" + std::to_string(v) + " is not the chosen path between its endpoints"); break; }
        }
    }
}

static void mode_c12(const Args &a) {
    int max_n = (int) a.geti("max_n", 16);
    long pairs = 0, subpaths = 0;
    for (uint64_t i = a.from; i < a.to; i++) {
        Rng r(case_seed(a.seed, "C12", i));
        bool use_int = r.chance(0.3);
        GraphSpec s;
        if (!a.replay.empty()) { std::ifstream in(a.replay); if (!parse_spec(in, s)) { emit_harness_failure("cannot parse replay spec"); exit(2); } use_int = a.gets("wtype", "double") == "int"; }
        else if (a.geti("large", 1) && r.chance(0.012)) s = gen_large_distinct(r);
        else { GenOpts o; o.max_n = max_n; o.tie_bias = 0.85; o.int_only = use_int; s = gen_graph(r, o); }
        CaseOut co(i);
        long p0 = pairs;
        bool ext = s.n <= 40 && (mix(canon_hash(s), 4242) % 10) < 3;
        if (use_int) { if (ext) run_c12<int, true>(co, s, pairs, subpaths); else run_c12<int, false>(co, s, pairs, subpaths); }
        else { if (ext) run_c12<double, true>(co, s, pairs, subpaths); else run_c12<double, false>(co, s, pairs, subpaths); }
        long conn_pairs = 0; { UF uf(s.n); for (auto &e : s.edges) uf.unite(e.u, e.v); std::map<int, long> sz; for (int q = 0; q < s.n; q++) sz[uf.find(q)]++; for (auto &c : sz) conn_pairs += c.second * (c.second - 1); }
        co.hash = mix(canon_hash(s), use_int); co.nontrivial = cycle_space_dim(s) >= 1 && conn_pairs >= 6;
        co.tag("fam:" + s.family.substr(0, s.family.find('+'))); if (s.tie_rich) co.tag("tie_rich"); if (components(s) > 1) co.tag("disconnected");
        if ((int) (i - a.from) < a.samples) co.sample = J().raw("graph", spec_json(s, 40)).num("ordered_pairs_checked", pairs - p0).done();
        co.end();
        if (!a.replay.empty()) break;
    }
    emit_summary(J().num("ordered_pairs_checked", pairs).num("subpaths_checked", subpaths).done());
}

// ------------------------------------------------------------------------------------------------
// C13
// ------------------------------------------------------------------------------------------------
static void mode_c13(const Args &a) {
    int max_n = (int) a.geti("max_n", 120);
    typedef BG<double>::Graph G;
    long emitted_total = 0;
    for (uint64_t i = a.from; i < a.to; i++) {
        Rng r(case_seed(a.seed, "C13", i));
        GraphSpec s;
        if (!a.replay.empty()) { std::ifstream in(a.replay); if (!parse_spec(in, s)) { emit_harness_failure("cannot parse replay spec"); exit(2); } }
        else {
            GenOpts o; o.max_n = (int) r.range(4, max_n); o.tie_bias = 1.0;
            int pick = (int) r.below(6);
            if (a.geti("large", 1) && r.chance(0.03)) { // degree thresholds: a hub of degree 250..700 on a rim, with pendant leaves and a few separate cycles
                Topo t; int rim = (int) r.range(100, 400); int leaves = (int) r.range(0, 320); int n = 1 + rim + leaves;
                for (int v = 1; v <= rim; v++) { add_e(t, 0, v); if (r.chance(0.9)) add_e(t, v, v % rim + 1); }
                for (int v = rim + 1; v < n; v++) add_e(t, 0, v);
                int extra = (int) r.range(0, 3); for (int q = 0; q < extra; q++) { int len = (int) r.range(3, 6); int first = n; for (int z = 0; z < len; z++) { add_e(t, n, z + 1 < len ? n + 1 : first); n++; } }
                dedup(t); s.n = n; for (auto &e : t) s.edges.push_back({e.first, e.second, 1}); r.shuffle(s.edges); s.family = "high_degree_hub";
            } else if (a.geti("large", 1) && r.chance(0.002)) { // size thresholds: ~70 000 vertices, a hub of degree > 65 536, many small cycles
                Topo t; int n = (int) r.range(66000, 72000); for (int v = 1; v < n; v++) add_e(t, 0, v); for (int v = 1; v + 1 < n; v += (int) r.range(2, 40)) add_e(t, v, v + 1);
                dedup(t); s.n = n; for (auto &e : t) s.edges.push_back({e.first, e.second, 1}); s.family = "huge_star_with_cycles";
            } else
            if (pick == 0) { // hub whose removal drops many degrees at once, plus trees glued to cycles
                Topo t; int n = (int) r.range(6, o.max_n); for (int v = 1; v < n; v++) add_e(t, 0, v); for (int v = 1; v + 1 < n; v += (int) r.range(1, 3)) add_e(t, v, v + 1);
                int extra = (int) r.range(0, n / 3); for (int q = 0; q < extra; q++) { add_e(t, (int) r.below(n), n); n++; }
                dedup(t); s.n = n; for (auto &e : t) s.edges.push_back({e.first, e.second, 1}); r.shuffle(s.edges); s.family = "hub";
            } else if (pick == 1) { Topo t; int n = topo_caterpillar_cycles(r, t, (int) r.range(3, std::max(4, o.max_n / 3))); n = std::max(n, 1); int c = topo_cactus(r, t, 0, 0); (void) c; dedup(t); s.n = n; for (auto &e : t) s.edges.push_back({e.first, e.second, 1}); r.shuffle(s.edges); s.family = "caterpillar"; }
            else s = gen_graph(r, o);
        }
        CaseOut co(i);
        G g; build_graph<double>(s, g);
        std::vector<size_t> fvs; std::string exc, sink_err;
        // the output iterator is a template parameter: insert iterators, and positional ones (slots counted per write; a raw
        // pointer into storage the caller sized for all n vertices)
        int sink_kind = (int) (mix(canon_hash(s), 1313) % 10); sink_kind = sink_kind < 5 ? 0 : sink_kind < 8 ? 1 : 2;
        try {
            if (sink_kind == 0) parmcb::greedy_fvs(g, std::back_inserter(fvs));
            else if (sink_kind == 1) {
                SlotSink<size_t> sink((size_t) s.n + 4); parmcb::greedy_fvs(g, sink.begin());
                size_t used = 0; while (used < sink.writes.size() && sink.writes[used] > 0) used++;
                std::list<size_t> tmp; sink_err = sink.collect(used, tmp); fvs.assign(tmp.begin(), tmp.end());
            } else {
                const size_t SENT = (size_t) -7; std::vector<size_t> buf((size_t) s.n + 4, SENT); size_t *p = buf.data();
                parmcb::greedy_fvs(g, p);
                size_t used = 0; while (used < buf.size() && buf[used] != SENT) used++;
                for (size_t q = used; q < buf.size(); q++) if (buf[q] != SENT) sink_err = "raw pointer output: slot " + std::to_string(q) + " was written after an untouched slot";
                fvs.assign(buf.begin(), buf.begin() + used);
            }
        } catch (std::exception &e) { exc = e.what(); } catch (...) { exc = "unknown"; }
        std::string cj = pcase(s, "greedy_fvs", sink_kind == 0 ? "back_inserter" : sink_kind == 1 ? "positional sink" : "raw pointer");
        int dim = cycle_space_dim(s);
        co.tag(sink_kind == 0 ? "sink:back_inserter" : sink_kind == 1 ? "sink:positional" : "sink:raw_pointer");
        if (!exc.empty()) co.viol("fvs:exception", exc, cj, spec_text(s));
        else if (!sink_err.empty()) co.viol("fvs:output_iterator_misuse", sink_err, cj, spec_text(s));
        else {
            std::vector<char> in(s.n, 0); bool bad = false;
            std::vector<ll> fl(fvs.begin(), fvs.end());
            for (size_t v : fvs) {
                if (v >= (size_t) s.n) { co.viol("fvs:not_a_vertex", "emitted " + std::to_string(v) + " which is not a vertex", cj, spec_text(s), J().raw("emitted", jnums(fl)).done()); bad = true; break; }
                if (in[v]) { co.viol("fvs:repeated", "vertex " + std::to_string(v) + " emitted twice", cj, spec_text(s), J().raw("emitted", jnums(fl)).done()); bad = true; break; }
                in[v] = 1;
            }
            if (!bad) {
                UF uf(s.n); bool cyc = false;
                for (auto &e : s.edges) if (!in[e.u] && !in[e.v]) if (!uf.unite(e.u, e.v)) { cyc = true; break; }
                if (cyc) co.viol("fvs:not_feedback", "removing the emitted vertices leaves a cycle", cj, spec_text(s), J().raw("emitted", jnums(fl)).done());
                if (dim == 0 && !fvs.empty()) co.viol("fvs:forest_nonempty", "graph is a forest but " + std::to_string(fvs.size()) + " vertices were emitted", cj, spec_text(s), J().raw("emitted", jnums(fl)).done());
            }
            emitted_total += (long) fvs.size();
        }
        co.hash = canon_hash(s); co.nontrivial = dim >= 2;
        co.tag("fam:" + s.family.substr(0, s.family.find('+'))); if (dim == 0) co.tag("forest"); if (fvs.size() >= 2) co.tag("fvs>=2"); if (s.n >= 60) co.tag("n>=60");
        if ((int) (i - a.from) < a.samples) co.sample = J().raw("graph", spec_json(s, 40)).num("fvs_size", (ll) fvs.size()).done();
        co.end();
        if (!a.replay.empty()) break;
    }
    emit_summary(J().num("fvs_vertices_emitted", emitted_total).done());
}

// ------------------------------------------------------------------------------------------------
// C14
// ------------------------------------------------------------------------------------------------
template<class W> struct Cand { int root; int edge; Bits inc; ll w; };

template<class W, class WM, class Builder>
static bool collect(CaseOut &co, const GraphSpec &s, const typename BG<W>::Graph &g, WM &w, const char *name, std::vector<Cand<W>> &out, const std::string &cj, long &ncand) {
    typedef typename BG<W>::Graph G;
    std::vector<parmcb::SPTree<G, WM>> trees; std::vector<parmcb::CandidateCycle<G, WM>> cycles;
    Builder b; b(g, w, trees, cycles);
    EdgeIndex<W> idx(s, g);
    int n = s.n, m = s.m(); size_t words = (m + 63) / 64;
    for (auto &c : cycles) {
        ncand++;
        if (c.tree() >= trees.size()) { co.viol(std::string(name) + ":tree_index", "candidate refers to a tree that does not exist", cj, spec_text(s)); return false; }
        auto &t = trees[c.tree()];
        int root = (int) t.source();
        int ei = idx.lookup(c.edge(), n);
        if (ei < 0) { co.viol(std::string(name) + ":edge", "candidate edge is not an edge of the graph", cj, spec_text(s)); return false; }
        int x = s.edges[ei].u, y = s.edges[ei].v;
        auto nx = t.node(x), ny = t.node(y);
        std::string where = std::string(name) + " candidate (root " + std::to_string(root) + ", edge " + std::to_string(x) + "-" + std::to_string(y) + ")";
        if (!nx || !ny) { co.viol(std::string(name) + ":unreachable", where + ": endpoint not in the tree", cj, spec_text(s)); return false; }
        if ((nx->has_pred() && idx.lookup(nx->pred(), n) == ei) || (ny->has_pred() && idx.lookup(ny->pred(), n) == ei)) { co.viol(std::string(name) + ":tree_edge", where + ": the closing edge is a tree edge", cj, spec_text(s)); return false; }
        Bits inc(words ? words : 1, 0); bflip(inc, ei); ll tw = s.edges[ei].w;
        std::vector<int> seen(n, 0); bool bad = false;
        for (int side = 0; side < 2 && !bad; side++) {
            int cur = side ? y : x; int guard = 0;
            while (cur != root) {
                if (seen[cur]) { co.viol(std::string(name) + ":not_simple", where + ": the two root paths share vertex " + std::to_string(cur) + " besides the root", cj, spec_text(s)); bad = true; break; }
                seen[cur] = 1;
                auto cn = t.node(cur); if (!cn || !cn->has_pred() || ++guard > n) { co.viol(std::string(name) + ":broken_tree", where + ": pred walk broken", cj, spec_text(s)); bad = true; break; }
                int pe = idx.lookup(cn->pred(), n); if (pe < 0) { co.viol(std::string(name) + ":broken_tree", where + ": pred edge not in graph", cj, spec_text(s)); bad = true; break; }
                bflip(inc, pe); tw += s.edges[pe].w; cur = s.edges[pe].u == cur ? s.edges[pe].v : s.edges[pe].u;
            }
        }
        if (bad) return false;
        ll rw; if (!units_of<W>(s, c.weight(), rw) || rw != tw) { co.viol(std::string(name) + ":weight", where + ": recorded weight " + std::to_string((double) c.weight()) + " but the cycle weighs " + std::to_string(tw) + " units", cj, spec_text(s)); return false; }
        out.push_back({root, ei, inc, tw});
    }
    return true;
}

template<class W, bool Ext>
static void run_c14(CaseOut &co, const GraphSpec &s, long &ncand) {
    typedef typename BG<W>::Graph G; typedef typename WmSel<W, Ext>::type WM;
    G g; build_graph<W>(s, g); typename WmSel<W, Ext>::Store store; WM w = WmSel<W, Ext>::make(g, store);
    if (Ext) co.tag("weightmap:external_std_map");
    std::string cj = pcase(s, "candidate collections", wname<W>());
    std::vector<Cand<W>> H, F, I;
    if (!collect<W, WM, parmcb::detail::HortonCyclesBuilder<G, WM>>(co, s, g, w, "horton", H, cj, ncand)) return;
    if (!collect<W, WM, parmcb::detail::FVSCyclesBuilder<G, WM>>(co, s, g, w, "fvs", F, cj, ncand)) return;
    if (!collect<W, WM, parmcb::detail::ISOCyclesBuilder<G, WM>>(co, s, g, w, "iso", I, cj, ncand)) return;
    std::set<std::pair<int, int>> hs; for (auto &c : H) hs.insert({c.root, c.edge});
    for (auto &c : F) if (!hs.count({c.root, c.edge})) { co.viol("fvs:not_in_horton", "FVS candidate (root " + std::to_string(c.root) + ", edge index " + std::to_string(c.edge) + ") is not in Horton's collection", cj, spec_text(s)); return; }
    for (auto &c : I) if (!hs.count({c.root, c.edge})) { co.viol("iso:not_in_horton", "ISO candidate (root " + std::to_string(c.root) + ", edge index " + std::to_string(c.edge) + ") is not in Horton's collection", cj, spec_text(s)); return; }
    OracleResult orc = horton_oracle(s);
    if (!orc.ok) { emit_harness_failure("oracle failed"); exit(2); }
    const char *names[] = {"horton", "fvs", "iso"}; std::vector<Cand<W>> *cols[] = {&H, &F, &I};
    for (int q = 0; q < 3; q++) {
        auto v = *cols[q];
        std::stable_sort(v.begin(), v.end(), [](const Cand<W> &a, const Cand<W> &b) { return a.w < b.w; });
        GF2Basis B; ll tot = 0;
        for (auto &c : v) { if ((int) B.rank() == orc.dim) break; if (B.add(c.inc)) tot += c.w; }
        if ((int) B.rank() != orc.dim) co.viol(std::string(names[q]) + ":insufficient_rank", std::string(names[q]) + " collection spans only " + std::to_string(B.rank()) + " of " + std::to_string(orc.dim) + " dimensions", cj, spec_text(s));
        else if (tot != orc.opt) co.viol(std::string(names[q]) + ":insufficient_weight", "greedy over the " + std::string(names[q]) + " collection gives " + std::to_string(tot) + ", optimum is " + std::to_string(orc.opt), cj, spec_text(s));
    }
    co.tag("horton:" + std::string(H.size() > I.size() ? "iso_smaller" : "iso_equal"));
}

static void mode_c14(const Args &a) {
    int max_n = (int) a.geti("max_n", 26);
    std::string why; long q = oracle_selfcheck(a.seed + a.from, (int) a.geti("selfcheck", 30), why);
    if (q < 0) { emit_harness_failure(why); exit(2); }
    long ncand = 0;
    for (uint64_t i = a.from; i < a.to; i++) {
        Rng r(case_seed(a.seed, "C14", i));
        bool use_int = r.chance(0.3);
        GraphSpec s;
        if (!a.replay.empty()) { std::ifstream in(a.replay); if (!parse_spec(in, s)) { emit_harness_failure("cannot parse replay spec"); exit(2); } use_int = a.gets("wtype", "double") == "int"; }
        else if (a.geti("large", 1) && r.chance(0.01)) s = gen_large_distinct(r);
        else { GenOpts o; o.max_n = max_n; o.tie_bias = 0.65; o.int_only = use_int; s = gen_graph(r, o); }
        CaseOut co(i);
        long c0 = ncand;
        bool ext = s.n <= 40 && (mix(canon_hash(s), 1414) % 10) < 3;
        if (use_int) { if (ext) run_c14<int, true>(co, s, ncand); else run_c14<int, false>(co, s, ncand); }
        else { if (ext) run_c14<double, true>(co, s, ncand); else run_c14<double, false>(co, s, ncand); }
        co.hash = mix(canon_hash(s), use_int); co.nontrivial = cycle_space_dim(s) >= 2;
        co.tag("fam:" + s.family.substr(0, s.family.find('+'))); if (s.tie_rich) co.tag("tie_rich");
        if ((int) (i - a.from) < a.samples) co.sample = J().raw("graph", spec_json(s, 40)).num("candidates_checked", ncand - c0).done();
        co.end();
        if (!a.replay.empty()) break;
    }
    emit_summary(J().num("candidates_checked", ncand).num("oracle_selfcheck_graphs", q).done());
}

// ------------------------------------------------------------------------------------------------
// C16
// ------------------------------------------------------------------------------------------------
static void mode_c16(const Args &a) {
    int max_n = (int) a.geti("max_n", 40);
    typedef BG<double>::Graph G; typedef BG<double>::Edge E;
    for (uint64_t i = a.from; i < a.to; i++) {
        Rng r(case_seed(a.seed, "C16", i));
        GraphSpec s;
        if (!a.replay.empty()) { std::ifstream in(a.replay); if (!parse_spec(in, s)) { emit_harness_failure("cannot parse replay spec"); exit(2); } }
        else if (r.chance(0.06)) { // queue / block-size thresholds of the BFS: isolated vertices, then a cut vertex with 130-420 pendant leaves (and a few cycles)
            int iso = (int) r.range(0, 191), leaves = (int) r.range(130, 420); int hub = iso; int n = iso + 1 + leaves;
            for (int q = 0; q < leaves; q++) s.edges.push_back({hub, iso + 1 + q, 1});
            int cyc = (int) r.range(0, 3); for (int q = 0; q < cyc; q++) { int a_ = iso + 1 + (int) r.below(leaves), b_ = iso + 1 + (int) r.below(leaves); if (a_ != b_) { bool dup = false; for (auto &e : s.edges) if ((e.u == a_ && e.v == b_) || (e.u == b_ && e.v == a_)) dup = true; if (!dup) s.edges.push_back({a_, b_, 1}); } }
            s.n = n; int numbering = (int) r.below(3);     // 0: isolated, hub, leaves; 1: random; 2: hub first, leaves, isolated last
            if (numbering == 1) { std::vector<int> perm(n); std::iota(perm.begin(), perm.end(), 0); r.shuffle(perm); for (auto &e : s.edges) { e.u = perm[e.u]; e.v = perm[e.v]; } r.shuffle(s.edges); }
            if (numbering == 2) { for (auto &e : s.edges) { e.u -= iso; e.v -= iso; } }
            s.family = "isolated_then_hub"; }
        else if (a.geti("large", 1) && r.chance(0.002)) { // size thresholds (narrow counters): ~70 000 vertices in a few thousand components
            int n = (int) r.range(66000, 72000); s.n = n; for (int v = 0; v + 1 < n; v++) if (!r.chance(0.05)) s.edges.push_back({v, v + 1, 1}); int extra = (int) r.range(1, 300); std::set<int> used_a; for (int q = 0; q < extra; q++) { int a_ = (int) r.below(n - 5); if (used_a.insert(a_).second) s.edges.push_back({a_, a_ + 3, 1}); } s.family = "huge_paths_with_chords"; }
        else { GenOpts o; o.max_n = (int) r.range(0, max_n); o.tie_bias = 1.0; s = gen_graph(r, o); }
        { std::set<std::pair<int, int>> seen; for (auto &e : s.edges) if (e.u == e.v || !seen.insert({std::min(e.u, e.v), std::max(e.u, e.v)}).second) { emit_harness_failure("C16 generator produced a non-simple graph (family " + s.family + ")"); exit(2); } }
        CaseOut co(i);
        bool scramble = r.chance(0.5) && s.n < 5000;
        G g(s.n); auto w = boost::get(boost::edge_weight, g);
        vscr::begin(scramble, r.next(), 2 * s.edges.size() + 3 * (size_t) s.n + 64);
        for (auto &e : s.edges) { auto x = boost::add_edge(e.u, e.v, g).first; w[x] = 1.0; }
        vscr::end();
        std::string cj = pcase(s, "ForestIndex", "-");
        auto fail = [&](const std::string &k, const std::string &msg) { co.viol("forestindex:" + k, msg, cj, spec_text(s)); };
        {
            parmcb::ForestIndex<G> fi(g);
            EdgeIndex<double> idx(s, g);
            int n = s.n, m = s.m(), c = components(s), dim = m - n + c;
            bool ok = true;
            if ((int) fi.weak_connected_components() != c) { fail("components", "reports " + std::to_string(fi.weak_connected_components()) + " components, graph has " + std::to_string(c)); ok = false; }
            if (ok && (int) fi.cycle_space_dimension() != dim) { fail("dimension", "reports dimension " + std::to_string(fi.cycle_space_dimension()) + ", m-n+c = " + std::to_string(dim)); ok = false; }
            std::vector<char> used(m, 0); UF uf(n); int forest_edges = 0;
            if (ok) for (auto e : boost::make_iterator_range(boost::edges(g))) {
                size_t k;
                try { k = fi(e); } catch (...) { fail("lookup", "edge -> index lookup threw"); ok = false; break; }
                if (k >= (size_t) m) { fail("range", "index " + std::to_string(k) + " out of 0..m-1"); ok = false; break; }
                if (used[k]) { fail("bijection", "index " + std::to_string(k) + " assigned twice"); ok = false; break; }
                used[k] = 1;
                const E &back = fi(k);
                if (!(back == e)) { fail("inverse", "fi(fi(e)) != e at index " + std::to_string(k)); ok = false; break; }
                bool onf = fi.is_on_forest(e);
                if (onf != (k >= (size_t) dim)) { fail("forest_flag", "is_on_forest disagrees with index >= dimension at index " + std::to_string(k)); ok = false; break; }
                if (onf) { forest_edges++; int ei = idx.lookup(e, n); if (!uf.unite(s.edges[ei].u, s.edges[ei].v)) { fail("forest_cycle", "the edges reported on the forest contain a cycle"); ok = false; break; } }
            }
            if (ok) for (int k = 0; k < m; k++) { const E &e = fi((size_t) k); if (idx.lookup(e, n) < 0 || fi(e) != (size_t) k) { fail("inverse", "fi(fi(i)) != i at " + std::to_string(k)); ok = false; break; } }
            if (ok && forest_edges != n - c) { fail("spanning", "forest has " + std::to_string(forest_edges) + " edges, a spanning forest needs " + std::to_string(n - c)); ok = false; }
            if (ok) { // copies are equal indexes
                // the assignment target was built for a DIFFERENT graph (other vertex, edge and component counts): every member must be replaced
                G other((size_t) r.range(0, 6)); { int oe = (int) r.range(0, 4); size_t on = boost::num_vertices(other); for (int q = 0; q < oe && on >= 2; q++) { size_t a1 = r.below(on), b1 = r.below(on); if (a1 != b1 && !boost::edge(a1, b1, other).second) boost::add_edge(a1, b1, other); } }
                parmcb::ForestIndex<G> cp(fi); parmcb::ForestIndex<G> as(other); as = fi; as = as;
                for (auto e : boost::make_iterator_range(boost::edges(g))) if (cp(e) != fi(e) || as(e) != fi(e) || !(cp(fi(e)) == e)) { fail("copy", "copied index differs from the original"); ok = false; break; }
                if (ok && (cp.cycle_space_dimension() != fi.cycle_space_dimension() || cp.weak_connected_components() != fi.weak_connected_components())) fail("copy", "copy-constructed index reports different dimension/components");
                if (ok && (as.cycle_space_dimension() != fi.cycle_space_dimension() || as.weak_connected_components() != fi.weak_connected_components())) fail("assign", "index assigned over one built for another graph reports dimension " + std::to_string(as.cycle_space_dimension()) + " / components " + std::to_string(as.weak_connected_components()) + ", the source reports " + std::to_string(fi.cycle_space_dimension()) + " / " + std::to_string(fi.weak_connected_components()));
                if (ok) for (auto e : boost::make_iterator_range(boost::edges(g))) if (as.is_on_forest(e) != fi.is_on_forest(e) || cp.is_on_forest(e) != fi.is_on_forest(e)) { fail("assign", "is_on_forest of a copied/assigned index differs from the source"); break; }
            }
            co.hash = canon_hash(s); co.nontrivial = m >= 2 && dim >= 1;
            co.tag("fam:" + s.family.substr(0, s.family.find('+'))); if (c > 1) co.tag("components>1"); if (dim == 0) co.tag("forest_or_empty"); if (scramble) co.tag("scrambled_layout"); if (n == 0) co.tag("empty_graph");
            if ((int) (i - a.from) < a.samples) co.sample = J().raw("graph", spec_json(s, 40)).num("components", c).num("dimension", dim).done();
        }
        co.end();
        if (!a.replay.empty()) break;
    }
}

int main(int argc, char **argv) {
    Args a(argc, argv);
    if (a.mode == "c12") mode_c12(a);
    else if (a.mode == "c13") mode_c13(a);
    else if (a.mode == "c14") mode_c14(a);
    else if (a.mode == "c16") mode_c16(a);
    else { fprintf(stderr, "unknown mode\n"); return 2; }
    return 0;
}
