// Monitor for C03: the six TBB entry points under injected schedules (shim flavours) or under real oneTBB
// with global_control limits (plain / asan flavours).
#define VF_WITH_APPROX 1
#include "common/algos.hpp"
#ifndef VSHIM_ACTIVE
#include <tbb/global_control.h>
#endif

using namespace vf;

static const char *entry_names[] = {"mcb_sva_signed_tbb", "mcb_sva_fvs_trees_tbb", "mcb_sva_iso_trees_tbb", "approx_mcb_sva_signed_tbb", "approx_mcb_sva_fvs_trees_tbb", "approx_mcb_sva_iso_trees_tbb"};

static bool to_units_d(const GraphSpec &s, double v, ll &u) { double x = std::ldexp(v, s.wshift); if (!std::isfinite(x) || std::fabs(x) > 9e18 || x != std::floor(x)) return false; u = (ll) x; return true; }
static bool to_units_d(const GraphSpec &, int v, ll &u) { u = v; return true; }

static GraphSpec gen_sched_graph(Rng &r, int max_n, bool int_only) {
    GenOpts o; o.max_n = max_n; o.int_only = int_only; o.tie_bias = 0.55; o.allow_degenerate = true;
    GraphSpec s;
    if (max_n >= 22 && r.chance(0.05)) {
        // two blocks: a chain of light triangles bridged to a heavy dense block.  The candidate collections have well over a
        // thousand entries (so ranges with a large grainsize are still split), sorted by weight the odd candidates of a support
        // that lives in the light block sit at the very beginning, and whole sub-ranges of the heavy tail hold no odd candidate
        int tcount = (int) r.range(3, 6); Topo t; std::vector<ll> wt;
        auto E = [&](int a_, int b_, ll w_) { t.push_back({a_, b_}); wt.push_back(w_); };
        int n = 1; for (int q = 0; q < tcount; q++) { int a_ = n - 1, b_ = n, c_ = n + 1; E(a_, b_, 1); E(b_, c_, 1); E(a_, c_, 1); n += 2; }
        int base = n; int nb = (int) r.range(24, 30); n += nb; E(base - 1, base, 1);
        std::set<std::pair<int, int>> used;
        for (int v = 1; v < nb; v++) { int u = (int) r.below(v); used.insert({u, v}); E(base + u, base + v, r.range(100, 199)); }
        int target = (int) r.range(110, 140);
        while ((int) used.size() < target) { int u = (int) r.below(nb), v = (int) r.below(nb); if (u == v) continue; if (u > v) std::swap(u, v); if (!used.insert({u, v}).second) continue; E(base + u, base + v, r.range(100, 199)); }
        std::vector<int> perm(n); std::iota(perm.begin(), perm.end(), 0); r.shuffle(perm);
        s.n = n; for (size_t q = 0; q < t.size(); q++) s.edges.push_back({perm[t[q].first], perm[t[q].second], wt[q]});
        r.shuffle(s.edges); s.family = "light_triangles_plus_heavy_block"; s.wshift = 0; s.wmode = 0; s.tie_rich = false;
        return s;
    }
    if (r.chance(0.2)) { // dense core (the all-vertices branch |S_k| >= n runs) plus pendant / isolated vertices at random indices
        Topo t; int core = (int) r.range(6, 12); topo_er(r, t, core, 0.6 + 0.4 * r.real()); int n = core; int extra = (int) r.range(1, 3);
        for (int q = 0; q < extra; q++) { if (r.chance(0.7)) add_e(t, (int) r.below(core), n); n++; }
        dedup(t); std::vector<int> perm(n); std::iota(perm.begin(), perm.end(), 0); r.shuffle(perm);
        s.n = n; for (auto &e : t) s.edges.push_back({perm[e.first], perm[e.second], 1}); r.shuffle(s.edges); s.family = "dense_core_low_degree"; assign_weights(r, s, o, false);
        return s;
    }
    if (r.chance(0.5)) { // dense enough for long ranges of vertices / signed edges / candidates
        Topo t; int n = (int) r.range(5, max_n); topo_er(r, t, n, std::min(1.0, (2.5 + 5 * r.real()) / n)); if (r.chance(0.7)) topo_tree(r, t, n); dedup(t);
        s.n = n; for (auto &e : t) s.edges.push_back({e.first, e.second, 1}); r.shuffle(s.edges); s.family = "er"; assign_weights(r, s, o, false);
    } else s = gen_graph(r, o);
    return s;
}

template<class W> struct RunResult { W ret = 0; std::list<std::list<typename BG<W>::Edge>> cycles; std::string exc, sink_err; };
template<class W>
static RunResult<W> run_entry(int entry, const typename BG<W>::Graph &g, typename BG<W>::WMap w, size_t k, int sink_kind = 0, bool ext_map = false, size_t expected = 0) {
    RunResult<W> R; typedef typename BG<W>::Edge E;
    // output iterator and weight map are template parameters of the parallel entry points too (the approximate ones only compile
    // with the graph's interior weight map: their exact phase is instantiated with the caller's map type but runs on the spanner's)
    if (entry >= 3) ext_map = false;
    try {
        if (sink_kind == 1) {
            SlotSink<std::list<E>> sink(expected + 4);
            if (ext_map) { std::map<E, W> store; for (auto e : boost::make_iterator_range(boost::edges(g))) store[e] = boost::get(w, e); boost::associative_property_map<std::map<E, W>> wm(store);
                R.ret = run_exact_it<W>(3 + entry, g, wm, sink.begin()); }
            else R.ret = entry < 3 ? run_exact_it<W>(3 + entry, g, w, sink.begin()) : run_approx_it<W>(entry, g, w, k, sink.begin());
            R.sink_err = sink.collect(expected, R.cycles);
        } else if (ext_map) { std::map<E, W> store; for (auto e : boost::make_iterator_range(boost::edges(g))) store[e] = boost::get(w, e); boost::associative_property_map<std::map<E, W>> wm(store);
            R.ret = run_exact_it<W>(3 + entry, g, wm, std::back_inserter(R.cycles)); }
        else if (entry < 3) R.ret = run_exact<W>(3 + entry, g, w, R.cycles); else R.ret = run_approx<W>(entry, g, w, k, R.cycles); }
    catch (std::exception &e) { R.exc = e.what(); } catch (std::runtime_error *e) { R.exc = e->what(); delete e; } catch (...) { R.exc = "unknown"; }
    return R;
}

template<class W>
static void judge(CaseOut &co, const GraphSpec &s, const typename BG<W>::Graph &g, int entry, size_t k, const RunResult<W> &R, const OracleResult &orc, ll seq_units, const std::string &cfg_json, const std::string &cfg_tag) {
    std::string cj = J().str("entry", entry_names[entry]).str("weight_type", std::is_same<W, int>::value ? "int" : "double").num("k", (ll) k).raw("config", cfg_json).raw("graph", spec_json(s)).done();
    std::string key = std::string(entry_names[entry]) + ":";
    if (!R.exc.empty()) { co.viol(key + "exception", R.exc, cj, spec_text(s)); return; }
    if (!R.sink_err.empty()) { co.viol(key + "output_iterator_misuse", "through a positional output iterator: " + R.sink_err + " " + cfg_tag, cj, spec_text(s)); return; }
    BasisReport br = check_basis<W>(s, g, R.cycles);
    std::string obs = J().num("emitted_cycles", (ll) br.count).raw("cycle_weights_units", jnums(br.weights)).dbl("returned", (double) R.ret).num("optimum_units", orc.opt).done();
    if (!br.error.empty()) { co.viol(key + "invalid_basis(" + br.kind + ")", br.error + " " + cfg_tag, cj, spec_text(s), obs); return; }
    ll ru; if (!to_units_d(s, R.ret, ru) || ru != br.total) co.viol(key + "returned_ne_emitted", "returned " + std::to_string(R.ret) + ", emitted cycles weigh " + std::to_string(br.total) + " units " + cfg_tag, cj, spec_text(s), obs);
    if (entry < 3) {
        if (br.total != orc.opt) co.viol(key + "not_minimum", "emitted " + std::to_string(br.total) + " units, optimum " + std::to_string(orc.opt) + " " + cfg_tag, cj, spec_text(s), obs);
        if (ru != seq_units) co.viol(key + "differs_from_sequential", "returned " + std::to_string(ru) + " units, the sequential counterpart returned " + std::to_string(seq_units) + " " + cfg_tag, cj, spec_text(s), obs);
    } else {
        if (br.total < orc.opt) { emit_harness_failure("approximate basis lighter than oracle optimum"); exit(2); }
        if (br.total > (ll) (2 * k - 1) * orc.opt) co.viol(key + "bound_exceeded", "emitted " + std::to_string(br.total) + " > (2k-1)*OPT = " + std::to_string((ll) (2 * k - 1) * orc.opt) + " " + cfg_tag, cj, spec_text(s), obs);
        else if (k == 1 && br.total != orc.opt) co.viol(key + "k1_not_minimum", "k=1 but emitted " + std::to_string(br.total) + " != OPT " + std::to_string(orc.opt) + " " + cfg_tag, cj, spec_text(s), obs);
    }
}

template<class W>
static void run_case(const Args &a, uint64_t i, Rng &r, const GraphSpec &s, bool threaded, bool real, int nsched, long &executions) {
        CaseOut co(i);
        int dim = cycle_space_dim(s);
        typedef typename BG<W>::Graph G; typedef typename BG<W>::Edge E; typedef typename BG<W>::WMap WM;
        G g; build_graph<W>(s, g); WM w = boost::get(boost::edge_weight, g);
        OracleResult orc = horton_oracle(s); if (!orc.ok) { emit_harness_failure("oracle failed"); exit(2); }
        // sequential counterparts (no TBB involved)
        ll seq_units[3];
        for (int v = 0; v < 3; v++) { std::list<std::list<E>> c; W rv = run_exact<W>(v, g, w, c); if (!to_units_d(s, rv, seq_units[v])) seq_units[v] = -1; }
        int elo = (int) a.geti("entry_lo", 0), ehi = (int) a.geti("entry_hi", 5);
        for (int entry = elo; entry <= ehi; entry++) {
            for (int sc = 0; sc < nsched; sc++) {
                size_t k = entry < 3 ? 0 : (size_t) r.range(1, 3);
                if (a.opt.count("k")) k = (size_t) a.geti("k", 2);
                uint64_t sseed = r.next(); if (a.opt.count("sched")) sseed = strtoull(a.gets("sched", "1").c_str(), 0, 10);
                static const int Ts[] = {2, 3, 4, 8, 16}; int T = threaded ? Ts[r.below(5)] : 1; if (a.opt.count("T")) T = (int) a.geti("T", 4);
                std::string cfg, tag;
#ifdef VSHIM_ACTIVE
                vshim::S().reset(sseed, T, threaded);
                cfg = J().str("scheduler", threaded ? "shim-threaded" : "shim-serial").unum("schedule_seed", sseed).num("workers", T).done();
                tag = "[schedule seed " + std::to_string(sseed) + ", " + (threaded ? std::to_string(T) + " threads" : "serial") + "]";
                int sink_kind = (mix(sseed, 91) % 10) < 3 ? 1 : 0; bool ext_map = (mix(sseed, 92) % 10) < 2; if (sink_kind) co.tag("sink:positional"); if (ext_map && entry < 3) co.tag("weightmap:external_std_map");
                RunResult<W> R = run_entry<W>(entry, g, w, k, sink_kind, ext_map, (size_t) dim);
#else
                static const int lims[] = {1, 2, 4, 16}; int lim = lims[r.below(4)];
                cfg = J().str("scheduler", "oneTBB").num("max_allowed_parallelism", lim).done(); tag = "[oneTBB limit " + std::to_string(lim) + "]";
                RunResult<W> R; { tbb::global_control gc(tbb::global_control::max_allowed_parallelism, lim); R = run_entry<W>(entry, g, w, k, (mix(sseed, 91) % 10) < 3 ? 1 : 0, (mix(sseed, 92) % 10) < 2, (size_t) dim); }
                (void) sseed; (void) T;
#endif
                executions++;
                judge<W>(co, s, g, entry, k, R, orc, entry < 3 ? seq_units[entry] : 0, cfg, tag);
                if (!a.replay.empty() && a.opt.count("sched")) break;
            }
        }
        co.hash = mix(canon_hash(s), std::is_same<W, int>::value ? 1 : 0); co.nontrivial = dim >= 2;
        co.tag("fam:" + s.family.substr(0, s.family.find('+'))); co.tag(std::is_same<W, int>::value ? "wtype:int" : "wtype:double"); if (dim >= 20) co.tag("csd>=20"); if (s.tie_rich) co.tag("tie_rich"); if (dim >= s.n && dim >= 2) co.tag("dense");
        if ((int) (i - a.from) < a.samples) co.sample = J().raw("graph", spec_json(s, 40)).num("cycle_space_dim", dim).num("schedules_per_entry", nsched).str("weight_type", std::is_same<W, int>::value ? "int" : "double").done();
        co.end();
}

int main(int argc, char **argv) {
    Args a(argc, argv);
    bool threaded = a.mode == "c03t", real = a.mode == "c03real";
    if (a.mode != "c03" && !threaded && !real) { fprintf(stderr, "unknown mode\n"); return 2; }
#ifdef VSHIM_ACTIVE
    if (real) { fprintf(stderr, "c03real needs the real TBB build\n"); return 2; }
#else
    if (!real) { fprintf(stderr, "schedule injection needs the shim build\n"); return 2; }
#endif
    int max_n = (int) a.geti("max_n", 22); int nsched = (int) a.geti("schedules", 4);
    std::string why; long q = oracle_selfcheck(a.seed + a.from, (int) a.geti("selfcheck", 30), why);
    if (q < 0) { emit_harness_failure(why); exit(2); }
    long executions = 0;
    for (uint64_t i = a.from; i < a.to; i++) {
        Rng r(case_seed(a.seed, threaded ? "C03t" : real ? "C03r" : "C03", i));
        GraphSpec s;
        if (!a.replay.empty()) { std::ifstream in(a.replay); if (!parse_spec(in, s)) { emit_harness_failure("cannot parse replay spec"); exit(2); } }
        // the weight value type is a template parameter (the reduce identities are built from numeric_limits<W>): int as well as double
        bool use_int = a.replay.empty() ? r.chance(0.3) : a.gets("wtype", "double") == "int";
        if (a.replay.empty()) s = gen_sched_graph(r, max_n, use_int);
        if (use_int) { ll tot = 0; for (auto &e : s.edges) tot += e.w; if (s.wshift != 0 || s.wmode != 0 || tot * 12 > 2000000000LL) use_int = false; }
        if (use_int) run_case<int>(a, i, r, s, threaded, real, nsched, executions); else run_case<double>(a, i, r, s, threaded, real, nsched, executions);
        if (!a.replay.empty()) break;
    }
    J j; j.num("executions", executions).num("oracle_selfcheck_graphs", q);
#ifdef VSHIM_ACTIVE
    auto &S = vshim::S();
    j.unum("regions", S.regions).unum("for_regions", S.for_regions).unum("reduce_regions", S.reduce_regions).unum("leaves", S.leaves).unum("runs", S.runs).unum("joins", S.joins)
     .unum("joins_nonidentity_nonidentity", S.join_nn).unum("joins_nonidentity_identity", S.join_ni).unum("joins_identity_identity", S.join_ii).unum("joins_unclassified", S.join_unclassified)
     .unum("split_regions", S.split_regions).unum("multi_run_regions", S.multi_run_regions).unum("empty_regions", S.empty_regions).unum("distinct_schedule_shapes_summed_over_processes", S.shapes.size()).unum("distinct_schedule_shapes_in_one_process_max", S.shapes.size()).unum("concurrent_push_backs", S.pushbacks.load());
#endif
    emit_summary(j.done());
    return 0;
}
