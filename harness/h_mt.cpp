// Monitor for C07 (multi-threaded callers): T caller threads use the sequential entry points and the component builders
// concurrently on the SAME const graph and weight map - each thread owns everything it constructs, nothing is shared but
// read-only input.  Hidden shared mutable state in the library (a function-local static, a cache) is then a data race,
// i.e. undefined behaviour on valid input: ThreadSanitizer is the oracle (tsan flavour), and in every flavour each thread's
// results are compared with the ones a single thread computed before the others started.
#define VF_WITH_APPROX 1
#define VF_NO_TBB_VARIANTS 1
#include "common/algos.hpp"
#include <thread>
#include <atomic>

using namespace vf;

struct Results {
    std::vector<ll> exact_units;                // three sequential exact variants
    std::vector<ll> approx_units;               // three sequential approximate variants, k = 2
    std::vector<int> tree_sig;                  // for every (root, v): index of the predecessor edge, -1 unreachable, -2 root
    std::vector<ll> fvs;
    std::vector<ll> forest_sig;                 // components, dimension, index of every edge
    std::string exc;
    bool operator==(const Results &o) const { return exact_units == o.exact_units && approx_units == o.approx_units && tree_sig == o.tree_sig && fvs == o.fvs && forest_sig == o.forest_sig && exc == o.exc; }
};

template<class W> static ll units(const GraphSpec &s, W v);
template<> ll units<double>(const GraphSpec &s, double v) { double x = std::ldexp(v, s.wshift); if (!std::isfinite(x) || std::fabs(x) > 9e18) return -1; return (ll) std::llround(x); }
template<> ll units<int>(const GraphSpec &, int v) { return v; }

template<class W>
static Results compute(const GraphSpec &s, const typename BG<W>::Graph &g, typename BG<W>::WMap w, const EdgeIndex<W> &idx, const std::vector<int> &order) {
    typedef typename BG<W>::Graph G; typedef typename BG<W>::Edge E; typedef typename BG<W>::WMap WM;
    Results R; R.exact_units.assign(3, -7); R.approx_units.assign(3, -7);
    try {
        for (int op : order) {
            if (op < 3) { std::list<std::list<E>> c; R.exact_units[op] = units<W>(s, run_exact<W>(op, g, w, c)); }
            else if (op < 6) { std::list<std::list<E>> c; R.approx_units[op - 3] = units<W>(s, run_approx<W>(op - 3, g, w, 2, c)); }
            else if (op == 6) {
                auto index_map = boost::get(boost::vertex_index, g); int n = s.n; R.tree_sig.clear();
                for (int r = 0; r < n; r++) {
                    parmcb::SPTree<G, WM> t((size_t) r, g, index_map, w, (size_t) r);
                    for (int v = 0; v < n; v++) { auto nd = t.node(v); R.tree_sig.push_back(!nd ? -1 : !nd->has_pred() ? -2 : idx.lookup(nd->pred(), n)); }
                }
            } else if (op == 7) { std::vector<size_t> f; parmcb::greedy_fvs(g, std::back_inserter(f)); R.fvs.assign(f.begin(), f.end()); }
            else {
                parmcb::ForestIndex<G> fi(g); R.forest_sig.clear(); R.forest_sig.push_back((ll) fi.weak_connected_components()); R.forest_sig.push_back((ll) fi.cycle_space_dimension());
                for (auto e : boost::make_iterator_range(boost::edges(g))) R.forest_sig.push_back((ll) fi(e));
            }
        }
    } catch (std::exception &e) { R.exc = e.what(); } catch (...) { R.exc = "unknown"; }
    return R;
}

template<class W>
static void run_case(CaseOut &co, const GraphSpec &s, Rng &r, int T, long &calls) {
    typedef typename BG<W>::Graph G;
    G g; build_graph<W>(s, g); auto w = boost::get(boost::edge_weight, g);
    const G &cg = g; EdgeIndex<W> idx(s, g);
    std::vector<int> all = {0, 1, 2, 3, 4, 5, 6, 7, 8};
    Results ref = compute<W>(s, cg, w, idx, all);
    std::vector<std::vector<int>> orders(T, all); for (auto &o : orders) r.shuffle(o);
    std::vector<Results> got(T); std::atomic<int> ready(0);
    std::vector<std::thread> th;
    for (int t = 0; t < T; t++) th.emplace_back([&, t]() { ready++; while (ready.load() < T) std::this_thread::yield(); got[t] = compute<W>(s, cg, w, idx, orders[t]); });
    for (auto &x : th) x.join();
    calls += (long) T * 9;
    std::string cj = J().str("component", "concurrent callers").num("threads", T).str("weight_type", std::is_same<W, int>::value ? "int" : "double").raw("graph", spec_json(s)).done();
    for (int t = 0; t < T; t++) if (!(got[t] == ref)) {
        const Results &x = got[t]; std::string what = x.exc != ref.exc ? "exception '" + x.exc + "'" : x.exact_units != ref.exact_units ? "an exact variant's weight" : x.approx_units != ref.approx_units ? "an approximate variant's weight" : x.tree_sig != ref.tree_sig ? "the shortest-path trees" : x.fvs != ref.fvs ? "greedy_fvs" : "ForestIndex";
        co.viol("mt:result_differs_from_single_threaded", "thread " + std::to_string(t) + " of " + std::to_string(T) + " concurrent callers on the same const graph obtained a different result for " + what + " than a single thread did", cj, spec_text(s));
        break;
    }
}

int main(int argc, char **argv) {
    Args a(argc, argv);
    if (a.mode != "c07mt") { fprintf(stderr, "unknown mode\n"); return 2; }
    int max_n = (int) a.geti("max_n", 16); long calls = 0;
    for (uint64_t i = a.from; i < a.to; i++) {
        Rng r(case_seed(a.seed, "C07mt", i));
        bool use_int = r.chance(0.3);
        GraphSpec s;
        if (!a.replay.empty()) { std::ifstream in(a.replay); if (!parse_spec(in, s)) { emit_harness_failure("cannot parse replay spec"); exit(2); } use_int = a.gets("wtype", "double") == "int"; }
        else { GenOpts o; o.max_n = max_n; o.tie_bias = 0.8; o.int_only = use_int; s = gen_graph(r, o); }
        if (use_int) { ll tot = 0; for (auto &e : s.edges) tot += e.w; if (s.wshift != 0 || s.wmode != 0 || tot * 12 > 2000000000LL) use_int = false; }
        int T = a.opt.count("T") ? (int) a.geti("T", 4) : (int) r.range(2, 4);
        CaseOut co(i);
        if (use_int) run_case<int>(co, s, r, T, calls); else run_case<double>(co, s, r, T, calls);
        int dim = cycle_space_dim(s);
        co.hash = mix(canon_hash(s), (uint64_t) T * 2 + use_int); co.nontrivial = dim >= 2;
        co.tag("fam:" + s.family.substr(0, s.family.find('+'))); co.tag("threads=" + std::to_string(T)); if (s.tie_rich) co.tag("tie_rich"); co.tag(use_int ? "wtype:int" : "wtype:double");
        if ((int) (i - a.from) < a.samples) co.sample = J().raw("graph", spec_json(s, 40)).num("threads", T).num("cycle_space_dim", dim).done();
        co.end();
        if (!a.replay.empty()) break;
    }
    emit_summary(J().num("concurrent_library_calls", calls).done());
    return 0;
}
