#pragma once
#include "../tbb/shim_core.h"
