// Instrumented replacement for the small part of oneTBB that parmcb uses.  It is placed FIRST on the
// include path of the `shim` and `tsan` flavours only; the parmcb headers are compiled unmodified.
//
// Every parallel region draws one LEGAL execution from a seed:
//   parallel_for   : random partition of the range into consecutive non-empty leaves, each leaf run once,
//                    in random order (serial mode) or concurrently on T std::threads (threaded mode)
//   parallel_reduce: random partition into leaves; consecutive leaves grouped into accumulation RUNS; each
//                    run starts from a fresh copy of `identity` and folds v = func(leaf, v) left to right;
//                    runs execute in random order / concurrently; run values are combined by a random
//                    ORDER-PRESERVING binary tree of join(left, right); empty range -> identity
//   concurrent_vector: segmented, address-stable storage; push_back claims an index with a relaxed atomic
//                    (no artificial happens-before), element access is plain memory
// The schedule is a pure function of (seed, region number) in serial mode.
#pragma once
#include <cstddef>
#include <cstdint>
#include <vector>
#include <mutex>
#include <thread>
#include <atomic>
#include <functional>
#include <algorithm>
#include <iterator>
#include <unordered_set>
#include <exception>
#include <new>
#include <type_traits>
#include <utility>

#define TBB_VERSION_MAJOR 2021
#define TBB_VERSION_MINOR 8
#define VSHIM_ACTIVE 1

namespace vshim {

struct Rng {
    uint64_t s;
    explicit Rng(uint64_t seed) : s(seed) {}
    uint64_t next() { uint64_t z = (s += 0x9E3779B97F4A7C15ULL); z = (z ^ (z >> 30)) * 0xBF58476D1CE4E5B9ULL; z = (z ^ (z >> 27)) * 0x94D049BB133111EBULL; return z ^ (z >> 31); }
    size_t below(size_t n) { return n ? (size_t) (next() % n) : 0; }
    double real() { return (next() >> 11) * (1.0 / 9007199254740992.0); }
};
inline uint64_t mix(uint64_t a, uint64_t b) { Rng r(a ^ (b * 0xD6E8FEB86659FD93ULL + 0x2545F4914F6CDD1DULL)); r.next(); return r.next(); }

struct GcEvent { int kind; size_t value; uint64_t serial; }; // kind 1 = constructed, 0 = destroyed

struct Sched {
    std::mutex mu;
    uint64_t seed = 1;
    std::atomic<uint64_t> region{0};
    int threads = 4;
    bool threaded = false;
    // counters (updated under mu or from the region's master thread)
    uint64_t regions = 0, for_regions = 0, reduce_regions = 0, leaves = 0, runs = 0, joins = 0, join_nn = 0, join_ni = 0, join_ii = 0, join_unclassified = 0;
    uint64_t split_regions = 0, multi_run_regions = 0, empty_regions = 0, max_leaves = 0;
    std::atomic<uint64_t> pushbacks{0};
    std::unordered_set<uint64_t> shapes;
    std::vector<GcEvent> gc_events; std::vector<size_t> gc_active; uint64_t gc_serial = 0;
    void reset(uint64_t s, int t, bool thr) { seed = s; region = 0; threads = t; threaded = thr; }
};
inline Sched& S() { static Sched *s = new Sched(); return *s; }   // never destroyed: objects with static storage in the code under test (parmcb keeps a global_control alive until exit) may outlive any static of ours
inline int& depth() { static thread_local int d = 0; return d; }

// random cut points: returns leaf boundaries b_0=0 < b_1 < ... < b_L = n.  A range that carries a grainsize g > 1 is only ever
// split the way oneTBB splits a blocked_range: at its midpoint, and only while it is divisible (size > g); with the default
// grainsize of 1 every partition into non-empty consecutive sub-ranges is a legal one.
inline void halve(Rng &r, size_t lo, size_t hi, size_t g, double p, std::vector<size_t> &b) {
    if (hi - lo > g && r.real() < p) { size_t mid = lo + (hi - lo) / 2; halve(r, lo, mid, g, p, b); halve(r, mid, hi, g, p, b); }
    else b.push_back(hi);
}
inline std::vector<size_t> cuts(Rng &r, size_t n, size_t grain = 1) {
    std::vector<size_t> b; b.push_back(0);
    if (n == 0) return b;
    if (grain > 1) { double m = r.real(); double p = m < 0.15 ? 0.0 : m < 0.5 ? 1.0 : 0.3 + 0.7 * r.real(); halve(r, 0, n, grain, p, b); return b; }
    double mode = r.real();
    if (mode < 0.12) { b.push_back(n); return b; }                       // no split at all
    if (mode < 0.27) { for (size_t i = 1; i <= n; i++) b.push_back(i); return b; } // singletons
    double p = mode < 0.6 ? r.real() : r.real() * r.real() * 0.5;
    for (size_t i = 1; i < n; i++) if (r.real() < p) b.push_back(i);
    b.push_back(n);
    return b;
}

// run the tasks once each: serially in a random order, or on real threads
inline void run_tasks(Rng &r, std::vector<std::function<void()>> &tasks) {
    std::vector<size_t> order(tasks.size());
    for (size_t i = 0; i < order.size(); i++) order[i] = i;
    for (size_t i = order.size(); i > 1; i--) std::swap(order[i - 1], order[r.below(i)]);
    bool thr = S().threaded && tasks.size() > 1 && depth() == 0;
    if (!thr) { depth()++; try { for (size_t k : order) tasks[k](); } catch (...) { depth()--; throw; } depth()--; return; }
    std::atomic<size_t> next{0};
    size_t T = std::min<size_t>((size_t) std::max(1, S().threads), tasks.size());
    std::exception_ptr err; std::mutex emu;
    std::vector<std::thread> th;
    for (size_t t = 0; t < T; t++) th.emplace_back([&] {
        depth() = 1;
        for (;;) { size_t k = next.fetch_add(1, std::memory_order_relaxed); if (k >= order.size()) break;
            try { tasks[order[k]](); } catch (...) { std::lock_guard<std::mutex> g(emu); if (!err) err = std::current_exception(); } }
    });
    for (auto &t : th) t.join();
    if (err) std::rethrow_exception(err);
}

template<class V> struct has_eq {
    template<class U> static auto test(int) -> decltype(std::declval<const U&>() == std::declval<const U&>(), std::true_type());
    template<class> static std::false_type test(...);
    static const bool value = decltype(test<V>(0))::value;
};
template<class V> inline typename std::enable_if<has_eq<V>::value, int>::type is_identity(const V &v, const V &id) { return v == id ? 1 : 0; }
template<class V> inline typename std::enable_if<!has_eq<V>::value, int>::type is_identity(const V &, const V &) { return -1; }

} // namespace vshim

namespace tbb {

template<class T>
class blocked_range {
    T b_, e_; std::size_t g_;
public:
    typedef T const_iterator; typedef std::size_t size_type;
    blocked_range() : b_(), e_(), g_(1) {}
    blocked_range(T b, T e, std::size_t g = 1) : b_(b), e_(e), g_(g) {}
    T begin() const { return b_; } T end() const { return e_; }
    size_type size() const { return size_type(e_ - b_); } bool empty() const { return !(b_ < e_); }
    size_type grainsize() const { return g_; } bool is_divisible() const { return g_ < size(); }
};

namespace vshim_detail {
template<class R> inline std::size_t range_len(const R &r) { return r.empty() ? 0 : (std::size_t) (r.end() - r.begin()); }
template<class R> inline R sub(const R &r, std::size_t a, std::size_t b) { return R(r.begin() + a, r.begin() + b); }
template<class R> inline auto grain_of(const R &r, int) -> decltype(r.grainsize(), std::size_t()) { return (std::size_t) r.grainsize(); }
template<class R> inline std::size_t grain_of(const R &, long) { return 1; }
}

template<class Range, class Body>
void parallel_for(const Range &range, const Body &body) {
    auto &S = vshim::S();
    uint64_t reg = S.region.fetch_add(1);
    vshim::Rng r(vshim::mix(S.seed, reg));
    std::size_t n = vshim_detail::range_len(range);
    std::vector<std::size_t> b = vshim::cuts(r, n, vshim_detail::grain_of(range, 0));
    std::size_t L = b.size() - 1;
    {
        std::lock_guard<std::mutex> g(S.mu);
        S.regions++; S.for_regions++; S.leaves += L; if (L > 1) S.split_regions++; if (n == 0) S.empty_regions++; if (L > S.max_leaves) S.max_leaves = L;
        uint64_t h = 0xF0; for (std::size_t x : b) h = vshim::mix(h, x); S.shapes.insert(h);
    }
    if (n == 0) return;
    std::vector<std::function<void()>> tasks;
    for (std::size_t i = 0; i < L; i++) { Range leaf = vshim_detail::sub(range, b[i], b[i + 1]); tasks.push_back([&body, leaf] { body(leaf); }); }
    vshim::run_tasks(r, tasks);
}

template<class Range, class Value, class Func, class Join>
Value parallel_reduce(const Range &range, const Value &identity, const Func &func, const Join &join) {
    auto &S = vshim::S();
    uint64_t reg = S.region.fetch_add(1);
    vshim::Rng r(vshim::mix(S.seed, reg));
    std::size_t n = vshim_detail::range_len(range);
    std::vector<std::size_t> b = vshim::cuts(r, n, vshim_detail::grain_of(range, 0));
    std::size_t L = b.size() - 1;
    if (n == 0) {
        std::lock_guard<std::mutex> g(S.mu); S.regions++; S.reduce_regions++; S.empty_regions++; S.shapes.insert(0xE0);
        return identity;
    }
    // group consecutive leaves into runs
    std::vector<std::size_t> rb; rb.push_back(0);
    double pr = r.real(); pr = pr < 0.25 ? 0.0 : pr < 0.5 ? 1.0 : r.real();
    for (std::size_t i = 1; i < L; i++) if (r.real() < pr) rb.push_back(i);
    rb.push_back(L);
    std::size_t R = rb.size() - 1;
    std::vector<Value> vals(R, identity);
    std::vector<std::function<void()>> tasks;
    std::vector<Range> leaves; leaves.reserve(L);
    for (std::size_t i = 0; i < L; i++) leaves.push_back(vshim_detail::sub(range, b[i], b[i + 1]));
    for (std::size_t k = 0; k < R; k++) tasks.push_back([&, k] {
        Value v = identity;
        for (std::size_t j = rb[k]; j < rb[k + 1]; j++) v = func(leaves[j], static_cast<const Value&>(v));
        vals[k] = v;
    });
    vshim::run_tasks(r, tasks);
    // random order-preserving binary join tree
    uint64_t h = 0xD0; for (std::size_t x : b) h = vshim::mix(h, x); for (std::size_t x : rb) h = vshim::mix(h, x + 1000003);
    uint64_t nn = 0, ni = 0, ii = 0, un = 0, nj = 0;
    while (vals.size() > 1) {
        std::size_t p = r.below(vals.size() - 1);
        int a = vshim::is_identity(vals[p], identity), c = vshim::is_identity(vals[p + 1], identity);
        if (a < 0 || c < 0) un++; else if (!a && !c) nn++; else if (a && c) ii++; else ni++;
        Value joined = join(static_cast<const Value&>(vals[p]), static_cast<const Value&>(vals[p + 1]));
        vals[p] = joined; vals.erase(vals.begin() + p + 1); nj++; h = vshim::mix(h, p + 77);
    }
    {
        std::lock_guard<std::mutex> g(S.mu);
        S.regions++; S.reduce_regions++; S.leaves += L; S.runs += R; S.joins += nj; S.join_nn += nn; S.join_ni += ni; S.join_ii += ii; S.join_unclassified += un;
        if (L > 1) S.split_regions++; if (R > 1) S.multi_run_regions++; if (L > S.max_leaves) S.max_leaves = L;
        S.shapes.insert(h);
    }
    return vals[0];
}

// ------------------------------------------------------------------------------------------------
template<class T>
class concurrent_vector {
    static const int NSEG = 48;
    std::atomic<T*> seg_[NSEG];
    std::atomic<std::size_t> size_;
    static int seg_of(std::size_t i) { std::size_t x = i + 2; int k = 0; while (x >>= 1) k++; return k - 1; }          // segment k holds 2^(k+1) elements starting at 2^(k+1)-2
    static std::size_t seg_base(int k) { return ((std::size_t) 1 << (k + 1)) - 2; }
    static std::size_t seg_size(int k) { return (std::size_t) 1 << (k + 1); }
    T* slot(std::size_t i) const { int k = seg_of(i); return seg_[k].load(std::memory_order_acquire) + (i - seg_base(k)); }
    T* ensure(std::size_t i) {
        int k = seg_of(i);
        T *s = seg_[k].load(std::memory_order_acquire);
        if (!s) {
            T *fresh = static_cast<T*>(::operator new(sizeof(T) * seg_size(k)));
            T *expected = nullptr;
            if (seg_[k].compare_exchange_strong(expected, fresh, std::memory_order_acq_rel)) s = fresh; else { ::operator delete(fresh); s = expected; }
        }
        return s + (i - seg_base(k));
    }
public:
    typedef T value_type; typedef std::size_t size_type; typedef T& reference; typedef const T& const_reference;
    template<class CV, class Ref, class Ptr>
    class iter {
        CV *cv_; std::size_t i_;
    public:
        typedef std::random_access_iterator_tag iterator_category; typedef T value_type; typedef std::ptrdiff_t difference_type; typedef Ptr pointer; typedef Ref reference;
        iter() : cv_(nullptr), i_(0) {} iter(CV *cv, std::size_t i) : cv_(cv), i_(i) {}
        template<class CV2, class R2, class P2> iter(const iter<CV2, R2, P2> &o) : cv_(o.cv()), i_(o.idx()) {}
        CV* cv() const { return cv_; } std::size_t idx() const { return i_; }
        Ref operator*() const { return (*cv_)[i_]; } Ptr operator->() const { return &(*cv_)[i_]; } Ref operator[](difference_type d) const { return (*cv_)[i_ + d]; }
        iter& operator++() { ++i_; return *this; } iter operator++(int) { iter t = *this; ++i_; return t; } iter& operator--() { --i_; return *this; } iter operator--(int) { iter t = *this; --i_; return t; }
        iter& operator+=(difference_type d) { i_ += d; return *this; } iter& operator-=(difference_type d) { i_ -= d; return *this; }
        iter operator+(difference_type d) const { return iter(cv_, i_ + d); } iter operator-(difference_type d) const { return iter(cv_, i_ - d); }
        difference_type operator-(const iter &o) const { return (difference_type) i_ - (difference_type) o.i_; }
        bool operator==(const iter &o) const { return i_ == o.i_; } bool operator!=(const iter &o) const { return i_ != o.i_; }
        bool operator<(const iter &o) const { return i_ < o.i_; } bool operator>(const iter &o) const { return i_ > o.i_; } bool operator<=(const iter &o) const { return i_ <= o.i_; } bool operator>=(const iter &o) const { return i_ >= o.i_; }
    };
    typedef iter<concurrent_vector, T&, T*> iterator;
    typedef iter<const concurrent_vector, const T&, const T*> const_iterator;
    template<class It> struct range_t {
        It b_, e_; typedef It iterator; typedef It const_iterator; typedef T value_type;
        range_t(It b, It e, std::size_t = 1) : b_(b), e_(e) {}
        It begin() const { return b_; } It end() const { return e_; } bool empty() const { return !(b_ < e_); } std::size_t size() const { return (std::size_t) (e_ - b_); } bool is_divisible() const { return size() > 1; }
    };
    typedef range_t<iterator> range_type; typedef range_t<const_iterator> const_range_type;

    concurrent_vector() : size_(0) { for (auto &s : seg_) s.store(nullptr, std::memory_order_relaxed); }
    concurrent_vector(const concurrent_vector &o) : size_(0) { for (auto &s : seg_) s.store(nullptr, std::memory_order_relaxed); for (std::size_t i = 0; i < o.size(); i++) push_back(o[i]); }
    concurrent_vector& operator=(const concurrent_vector &o) { if (this != &o) { clear(); for (std::size_t i = 0; i < o.size(); i++) push_back(o[i]); } return *this; }
    ~concurrent_vector() { clear(); }
    void clear() {
        std::size_t n = size_.load(std::memory_order_relaxed);
        for (std::size_t i = 0; i < n; i++) slot(i)->~T();
        for (auto &s : seg_) { T *p = s.load(std::memory_order_relaxed); if (p) ::operator delete(p); s.store(nullptr, std::memory_order_relaxed); }
        size_.store(0, std::memory_order_relaxed);
    }
    iterator push_back(const T &v) {
        std::size_t i = size_.fetch_add(1, std::memory_order_relaxed);
        new (ensure(i)) T(v);
        vshim::S().pushbacks.fetch_add(1, std::memory_order_relaxed);
        return iterator(this, i);
    }
    iterator push_back(T &&v) {
        std::size_t i = size_.fetch_add(1, std::memory_order_relaxed);
        new (ensure(i)) T(std::move(v));
        vshim::S().pushbacks.fetch_add(1, std::memory_order_relaxed);
        return iterator(this, i);
    }
    template<class... A> iterator emplace_back(A&&... a) { std::size_t i = size_.fetch_add(1, std::memory_order_relaxed); new (ensure(i)) T(std::forward<A>(a)...); return iterator(this, i); }
    T& operator[](std::size_t i) { return *slot(i); } const T& operator[](std::size_t i) const { return *slot(i); }
    T& at(std::size_t i) { if (i >= size()) throw std::out_of_range("concurrent_vector::at"); return *slot(i); }
    const T& at(std::size_t i) const { if (i >= size()) throw std::out_of_range("concurrent_vector::at"); return *slot(i); }
    std::size_t size() const { return size_.load(std::memory_order_relaxed); } bool empty() const { return size() == 0; }
    iterator begin() { return iterator(this, 0); } iterator end() { return iterator(this, size()); }
    const_iterator begin() const { return const_iterator(this, 0); } const_iterator end() const { return const_iterator(this, size()); }
    const_iterator cbegin() const { return begin(); } const_iterator cend() const { return end(); }
    range_type range(std::size_t = 1) { return range_type(begin(), end()); }
};

// ------------------------------------------------------------------------------------------------
class global_control {
public:
    enum parameter { max_allowed_parallelism, thread_stack_size, terminate_on_exception, parameter_max };
    global_control(parameter p, std::size_t v) : p_(p), v_(v) {
        auto &S = vshim::S(); std::lock_guard<std::mutex> g(S.mu);
        if (p == max_allowed_parallelism) { S.gc_active.push_back(v); S.gc_events.push_back({1, v, ++S.gc_serial}); }
    }
    ~global_control() {
        auto &S = vshim::S(); std::lock_guard<std::mutex> g(S.mu);
        if (p_ == max_allowed_parallelism) { auto it = std::find(S.gc_active.begin(), S.gc_active.end(), v_); if (it != S.gc_active.end()) S.gc_active.erase(it); S.gc_events.push_back({0, v_, ++S.gc_serial}); }
    }
    global_control(const global_control&) = delete; global_control& operator=(const global_control&) = delete;
    static std::size_t active_value(parameter p) {
        auto &S = vshim::S(); std::lock_guard<std::mutex> g(S.mu);
        if (p != max_allowed_parallelism) return 0;
        std::size_t hw = std::thread::hardware_concurrency(); if (!hw) hw = 1;
        std::size_t m = hw; for (std::size_t v : S.gc_active) m = std::min(m, v);
        return m;
    }
private:
    parameter p_; std::size_t v_;
};

class task_group { public: template<class F> void run(const F &f) { f(); } void wait() {} };

} // namespace tbb

namespace oneapi { namespace tbb = ::tbb; }
