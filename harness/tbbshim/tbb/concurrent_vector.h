#pragma once
#include "shim_core.h"
