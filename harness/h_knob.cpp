// Monitor for C20 (library half): after every call of a sequence set_global_tbb_concurrency(n1), (n2), ... the
// active TBB limit must be the last n, and the set of distinct threads that evaluate the (instrumented)
// weight map during the following TBB entry-point calls must respect it.  One sequence per process.
#include "common/vcommon.hpp"
#include <set>
#include <mutex>
#include <thread>
#include <memory>
#include <boost/property_map/function_property_map.hpp>
#include <parmcb/parmcb.hpp>
#ifndef VSHIM_ACTIVE
#include <tbb/global_control.h>
#endif

using namespace vf;
typedef BG<double>::Graph G;
typedef BG<double>::Edge E;

static std::mutex g_mu; static std::set<std::thread::id> g_tids;
struct RecWeight {
    const G *g;
    double operator()(const E &e) const { { std::lock_guard<std::mutex> l(g_mu); g_tids.insert(std::this_thread::get_id()); } return boost::get(boost::edge_weight, *g, e); }
};

int main(int argc, char **argv) {
    Args a(argc, argv);
    if (a.mode != "c20") { fprintf(stderr, "unknown mode\n"); return 2; }
    for (uint64_t i = a.from; i < a.to; i++) {
        Rng r(case_seed(a.seed, "C20", i));
        CaseOut co(i);
        // a graph large enough for oneTBB to recruit workers
        int n = (int) a.geti("n", 150), m = (int) a.geti("m", 450);
        GraphSpec s; s.n = n; std::set<std::pair<int, int>> used;
        while ((int) s.edges.size() < m) { int x = (int) r.below(n), y = (int) r.below(n); if (x == y) continue; if (!used.insert({std::min(x, y), std::max(x, y)}).second) continue; s.edges.push_back({x, y, r.range(1, 9)}); }
        G g; build_graph<double>(s, g);
        boost::function_property_map<RecWeight, E, double> wm(RecWeight{&g});
        // a history over three operations: "<n>" = set_global_tbb_concurrency(n) followed by library calls, "A<m>" = the application
        // creates its own tbb::global_control(max_allowed_parallelism, m), "P" = the application destroys its most recent one
        std::vector<std::string> ops;
        if (a.opt.count("seq")) { std::stringstream ss(a.gets("seq", "1")); std::string tok; while (std::getline(ss, tok, ',')) ops.push_back(tok); }
        else {
            static const size_t ns[] = {1, 2, 3, 4, 8, 1, 2, 5, 6, 12, 16}; int len = (int) r.range(1, 4); int live = 0;
            bool with_app = r.chance(0.5); bool with_threads = r.chance(0.4);
            for (int q = 0; q < len; q++) {
                size_t want = ns[r.below(11)];
                if (with_app && r.chance(0.5)) { size_t m = r.chance(0.5) ? want : ns[r.below(11)]; ops.push_back("A" + std::to_string(m)); live++; }
                ops.push_back((with_threads && r.chance(0.5) ? "T" : "") + std::to_string(want));   // "T<n>": the call is made by a helper thread that has exited when it counts
                while (live > 0 && r.chance(0.6)) { ops.push_back("P"); live--; }
            }
        }
        std::string seqs; for (auto &x : ops) seqs += (seqs.empty() ? "" : ",") + x;
        std::string cj = J().str("component", "set_global_tbb_concurrency").str("call_sequence", seqs).num("graph_n", n).num("graph_m", m).done();
        size_t max_before = 0; std::string obs_all; double first_val = -1;
        bool bounded_seen = false, app_seen = false, app_equal_seen = false, thread_seen = false; int nsets = 0; std::vector<size_t> sets;
#ifndef VSHIM_ACTIVE
        std::vector<std::unique_ptr<tbb::global_control>> app; std::vector<size_t> appv;
#else
        std::vector<size_t> appv;
#endif
        bool have_want = false; size_t want = 0;
        // the limit the application may rely on: n, unless one of its own live controls asks for less (oneTBB: the minimum wins)
        auto expect_ok = [&](const char *when, const std::string &k2) {
            if (!have_want) return;
            for (size_t v : appv) if (v < want) return;
            size_t active = tbb::global_control::active_value(tbb::global_control::max_allowed_parallelism);
            if (active != want) co.viol(k2, std::string(when) + ": set_global_tbb_concurrency(" + std::to_string(want) + ") was the last setting (history " + seqs + ", " + std::to_string(appv.size()) + " application-owned controls alive, none below " + std::to_string(want) + ") but the active max_allowed_parallelism is " + std::to_string(active), cj, "seq=" + seqs);
        };
        for (size_t q = 0; q < ops.size(); q++) {
            const std::string &op = ops[q];
            if (op[0] == 'A') {
#ifndef VSHIM_ACTIVE
                size_t mval = (size_t) atoll(op.c_str() + 1); app.emplace_back(new tbb::global_control(tbb::global_control::max_allowed_parallelism, mval)); appv.push_back(mval); app_seen = true;
                if (q + 1 < ops.size() && ops[q + 1] == std::to_string(mval)) app_equal_seen = true;
                expect_ok("after the application created its own control", "knob:active_value_with_app_control");
#endif
                continue;
            }
            if (op[0] == 'P') {
#ifndef VSHIM_ACTIVE
                if (!app.empty()) { app.pop_back(); appv.pop_back(); }
                expect_ok("after the application destroyed its own control", "knob:active_value_after_app_control_destroyed");
#endif
                continue;
            }
            bool from_thread = op[0] == 'T';
            want = (size_t) atoll(op.c_str() + (from_thread ? 1 : 0)); have_want = true; nsets++; sets.push_back(want);
            // "every sequence of calls": the caller need not be the main thread; a helper thread that sets the limit and exits
            // (an initialisation routine run on a worker) leaves the limit in force for the library calls that follow
            if (from_thread) { size_t wv = want; std::thread th([wv]() { parmcb::set_global_tbb_concurrency(wv); }); th.join(); thread_seen = true; }
            else parmcb::set_global_tbb_concurrency(want);
            size_t active = tbb::global_control::active_value(tbb::global_control::max_allowed_parallelism);
            expect_ok("right after the call returned", appv.empty() ? "knob:active_value" : "knob:active_value_with_app_control");
            { std::lock_guard<std::mutex> l(g_mu); g_tids.clear(); }
            std::list<std::list<E>> c1, c2;
            double v1 = parmcb::mcb_sva_signed_tbb(g, wm, std::back_inserter(c1));
            double v2 = parmcb::mcb_sva_fvs_trees_tbb(g, wm, std::back_inserter(c2));
            if (first_val < 0) first_val = v1;
            if (v1 != first_val || v2 != first_val) co.viol("knob:result_changed", "library result changed with the concurrency setting", cj, "seq=" + seqs);
            expect_ok("after two library calls", appv.empty() ? "knob:active_value_after_calls" : "knob:active_value_with_app_control");
            size_t distinct; { std::lock_guard<std::mutex> l(g_mu); distinct = g_tids.size(); }
#ifndef VSHIM_ACTIVE
            if (want == 1 && max_before <= 1) { // no earlier call allowed more, and with limit 1 no worker may join: the caller alone executes
                bounded_seen = true;
                if (distinct != 1) co.viol("knob:not_serial", "limit 1 but " + std::to_string(distinct) + " distinct threads executed library tasks (operation #" + std::to_string(q + 1) + " of " + seqs + ")", cj, "seq=" + seqs);
            }
#endif
            obs_all += "n=" + std::to_string(want) + ":active=" + std::to_string(active) + ",threads=" + std::to_string(distinct) + " ";
            max_before = std::max(max_before, std::max(want, active));
        }
#ifndef VSHIM_ACTIVE
        while (!app.empty()) { app.pop_back(); appv.pop_back(); expect_ok("after the application destroyed its own control", "knob:active_value_after_app_control_destroyed"); }
#endif
        std::vector<size_t> &seq = sets;
        co.hash = mix(std::hash<std::string>()(seqs), i); co.nontrivial = true;
        co.tag("len=" + std::to_string(seq.size())); co.tag("first_n=" + std::to_string(seq[0])); if (bounded_seen) co.tag("thread_identity_bound_applied"); if (app_seen) co.tag("application_owned_controls"); if (thread_seen) co.tag("set_from_helper_thread"); if (app_equal_seen) co.tag("app_control_equals_requested_n");
        bool dec = false; for (size_t q = 1; q < seq.size(); q++) if (seq[q] < seq[q - 1]) dec = true; if (dec) co.tag("has_decrease"); if (seq.size() > 1 && !dec) co.tag("non_decreasing");
        co.sample = J().str("call_sequence", seqs).str("observed", obs_all).done();
        co.end();
    }
    return 0;
}
