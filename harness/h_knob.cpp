// Monitor for C20 (library half): after every call of a sequence set_global_tbb_concurrency(n1), (n2), ... the
// active TBB limit must be the last n, and the set of distinct threads that evaluate the (instrumented)
// weight map during the following TBB entry-point calls must respect it.  One sequence per process.
#include "common/vcommon.hpp"
#include <set>
#include <mutex>
#include <thread>
#include <boost/property_map/function_property_map.hpp>
#include <parmcb/parmcb.hpp>
#ifndef VSHIM_ACTIVE
#include <tbb/global_control.h>
#endif

using namespace vf;
typedef BG<double>::Graph G;
typedef BG<double>::Edge E;

static std::mutex g_mu; static std::set<std::thread::id> g_tids;
struct RecWeight {
    const G *g;
    double operator()(const E &e) const { { std::lock_guard<std::mutex> l(g_mu); g_tids.insert(std::this_thread::get_id()); } return boost::get(boost::edge_weight, *g, e); }
};

int main(int argc, char **argv) {
    Args a(argc, argv);
    if (a.mode != "c20") { fprintf(stderr, "unknown mode\n"); return 2; }
    for (uint64_t i = a.from; i < a.to; i++) {
        Rng r(case_seed(a.seed, "C20", i));
        CaseOut co(i);
        // a graph large enough for oneTBB to recruit workers
        int n = (int) a.geti("n", 150), m = (int) a.geti("m", 450);
        GraphSpec s; s.n = n; std::set<std::pair<int, int>> used;
        while ((int) s.edges.size() < m) { int x = (int) r.below(n), y = (int) r.below(n); if (x == y) continue; if (!used.insert({std::min(x, y), std::max(x, y)}).second) continue; s.edges.push_back({x, y, r.range(1, 9)}); }
        G g; build_graph<double>(s, g);
        boost::function_property_map<RecWeight, E, double> wm(RecWeight{&g});
        std::vector<size_t> seq;
        if (a.opt.count("seq")) { std::stringstream ss(a.gets("seq", "1")); std::string tok; while (std::getline(ss, tok, ',')) seq.push_back((size_t) atoll(tok.c_str())); }
        else { static const size_t ns[] = {1, 2, 3, 4, 8, 1, 2, 5, 6, 12, 16}; int len = (int) r.range(1, 4); for (int q = 0; q < len; q++) seq.push_back(ns[r.below(11)]); }
        std::string seqs; for (size_t x : seq) seqs += (seqs.empty() ? "" : ",") + std::to_string(x);
        std::string cj = J().str("component", "set_global_tbb_concurrency").str("call_sequence", seqs).num("graph_n", n).num("graph_m", m).done();
        size_t max_before = 0; std::string obs_all; double first_val = -1;
        bool bounded_seen = false;
        for (size_t q = 0; q < seq.size(); q++) {
            size_t want = seq[q];
            parmcb::set_global_tbb_concurrency(want);
            size_t active = tbb::global_control::active_value(tbb::global_control::max_allowed_parallelism);
            if (active != want) co.viol("knob:active_value", "after set_global_tbb_concurrency(" + std::to_string(want) + ") returned (call #" + std::to_string(q + 1) + " of sequence " + seqs + ") the active max_allowed_parallelism is " + std::to_string(active), cj, "seq=" + seqs);
            { std::lock_guard<std::mutex> l(g_mu); g_tids.clear(); }
            std::list<std::list<E>> c1, c2;
            double v1 = parmcb::mcb_sva_signed_tbb(g, wm, std::back_inserter(c1));
            double v2 = parmcb::mcb_sva_fvs_trees_tbb(g, wm, std::back_inserter(c2));
            if (first_val < 0) first_val = v1;
            if (v1 != first_val || v2 != first_val) co.viol("knob:result_changed", "library result changed with the concurrency setting", cj, "seq=" + seqs);
            size_t after = tbb::global_control::active_value(tbb::global_control::max_allowed_parallelism);
            if (after != want) co.viol("knob:active_value_after_calls", "after two library calls following set_global_tbb_concurrency(" + std::to_string(want) + ") the active limit is " + std::to_string(after), cj, "seq=" + seqs);
            size_t distinct; { std::lock_guard<std::mutex> l(g_mu); distinct = g_tids.size(); }
#ifndef VSHIM_ACTIVE
            if (want == 1 && max_before <= 1) { // no earlier call allowed more, and with limit 1 no worker may join: the caller alone executes
                bounded_seen = true;
                if (distinct != 1) co.viol("knob:not_serial", "limit 1 but " + std::to_string(distinct) + " distinct threads executed library tasks (call #" + std::to_string(q + 1) + " of " + seqs + ")", cj, "seq=" + seqs);
            }
#endif
            obs_all += "n=" + std::to_string(want) + ":active=" + std::to_string(active) + ",threads=" + std::to_string(distinct) + " ";
            max_before = std::max(max_before, want);
        }
        co.hash = mix(std::hash<std::string>()(seqs), i); co.nontrivial = true;
        co.tag("len=" + std::to_string(seq.size())); co.tag("first_n=" + std::to_string(seq[0])); if (bounded_seen) co.tag("thread_identity_bound_applied");
        bool dec = false; for (size_t q = 1; q < seq.size(); q++) if (seq[q] < seq[q - 1]) dec = true; if (dec) co.tag("has_decrease"); if (seq.size() > 1 && !dec) co.tag("non_decreasing");
        co.sample = J().str("call_sequence", seqs).str("observed", obs_all).done();
        co.end();
    }
    return 0;
}
