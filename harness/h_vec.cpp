// Monitors for the algebra helpers: C17 (SpVecGF2 against a dense bit-vector model) and
// C18 (fp<T>::ext_gcd / get_mult_inverse, primes<T>::is_prime, SpVecFP against arithmetic mod p).
#include <cstddef>
#include <cassert>
#include <cmath>
#include <stdexcept>
#include <boost/multiprecision/cpp_int.hpp>
#include "common/vcommon.hpp"
#include <parmcb/config.hpp>
#include <parmcb/spvecgf2.hpp>
#include <parmcb/spvecfp.hpp>
#include <parmcb/fp.hpp>
#include <parmcb/arithmetic.hpp>

using namespace vf;
typedef boost::multiprecision::cpp_int BigInt;

// ------------------------------------------------------------------------------------------------
// C17
// ------------------------------------------------------------------------------------------------
typedef parmcb::SpVecGF2<std::size_t> V2;
typedef std::vector<char> Dense;

static std::string dense_str(const Dense &d) { std::string s; for (size_t i = 0; i < d.size(); i++) if (d[i]) s += std::to_string(i) + " "; return s; }
static std::string v2_str(const V2 &v) { std::string s; for (auto x : v) s += std::to_string(x) + " "; return s; }

static bool same(const V2 &v, const Dense &d, const std::vector<size_t> &cmap, std::string &why) {
    std::vector<size_t> want; for (size_t i = 0; i < d.size(); i++) if (d[i]) want.push_back(cmap[i]);
    std::vector<size_t> got(v.begin(), v.end());
    for (size_t i = 1; i < got.size(); i++) if (!(got[i - 1] < got[i])) { why = "coordinates not strictly increasing: " + v2_str(v); return false; }
    if (got != want) { why = "contents {" + v2_str(v) + "} differ from dense model {" + dense_str(d) + "}"; return false; }
    if (v.size() != want.size()) { why = "size() = " + std::to_string(v.size()) + " but " + std::to_string(want.size()) + " coordinates are 1"; return false; }
    return true;
}


// coordinate map: dense position q -> library coordinate, strictly increasing, with a base and occasional huge GAPS between
// neighbouring positions (2^31+1, 2^32, 2^32+2^31, 2^40): two coordinates far apart then meet inside one merge
static std::vector<size_t> make_coordinate_map(vf::Rng &r, size_t D, std::string &desc) {
    static const size_t bases[] = {0, 0, 0, 250, 65530, 2147483640ULL, 4294967290ULL, 1099511627776ULL};
    static const size_t jumps[] = {2147483649ULL, 4294967296ULL, 6442450944ULL, 1099511627776ULL, 8589934592ULL};
    size_t B = bases[r.below(8)]; std::vector<size_t> m(D); size_t off = B; int gaps = 0;
    bool with_gaps = r.chance(0.3);
    for (size_t q = 0; q < D; q++) { if (with_gaps && q > 0 && r.chance(D <= 8 ? 0.4 : 3.0 / D)) { off += jumps[r.below(5)]; gaps++; } m[q] = q + off; }
    desc = "base " + std::to_string(B) + ", " + std::to_string(gaps) + " gaps >= 2^31";
    return m;
}

static void mode_c17(const Args &a) {
    long ops_total = 0;
    std::map<std::string, long> opcount;
    for (uint64_t i = a.from; i < a.to; i++) {
        Rng r(case_seed(a.seed, "C17", i));
        CaseOut co(i);
        size_t D = (size_t) r.range(1, (ll) a.geti("max_dim", 300));
        if (r.chance(0.3)) D = (size_t) r.range(1, 8);
        else if (r.chance(0.02)) D = (size_t) r.range(1000, 6000);   // long vectors: capacity / block-size thresholds
        std::string cdesc; const std::vector<size_t> cmap = make_coordinate_map(r, D, cdesc);
        const bool has_gaps = cdesc.find(" 0 gaps") == std::string::npos;
        int pool = (int) r.range(2, 8);
        int nops = (int) r.range(1, (ll) a.geti("max_ops", 200));
        std::vector<V2> vs(pool); std::vector<Dense> ds(pool, Dense(D, 0));
        std::vector<std::string> hist; bool bad = false;
        auto fail = [&](const std::string &kind, const std::string &msg) {
            std::string h; for (auto &x : hist) h += x + "; ";
            co.viol("spvecgf2:" + kind, msg, J().num("dimension", (ll) D).num("pool", pool).str("history", h).done(), "history seed=" + std::to_string(a.seed) + " case=" + std::to_string(i));
            bad = true; };
        auto randset = [&](std::set<size_t> &st, Dense &d) { d.assign(D, 0); double p = r.real(); for (size_t q = 0; q < D; q++) if (r.chance(p * p)) { st.insert(cmap[q]); d[q] = 1; } };
        for (int op = 0; op < nops && !bad; op++) {
            int x = (int) r.below(pool), y = (int) r.below(pool), z = (int) r.below(pool);
            int kind = (int) r.below(14); std::string why; std::string name;
            switch (kind) {
            case 0: { size_t q = r.below(D); name = "unit"; hist.push_back("v" + std::to_string(x) + "=unit(" + std::to_string(q) + ")"); vs[x] = V2(cmap[q]); ds[x].assign(D, 0); ds[x][q] = 1; break; }
            case 1: { std::set<size_t> st; Dense d; randset(st, d); name = "from_set"; hist.push_back("v" + std::to_string(x) + "=fromset(|" + std::to_string(st.size()) + "|)"); V2 t(st); vs[x] = t; ds[x] = d; break; }
            case 2: { name = "copy_construct"; hist.push_back("v" + std::to_string(x) + "=copy(v" + std::to_string(y) + ")"); V2 t(vs[y]); Dense d = ds[y]; vs[x] = t; ds[x] = d; break; }
            case 3: { name = "move_construct"; hist.push_back("v" + std::to_string(x) + "=V(move(v" + std::to_string(y) + ")); v" + std::to_string(y) + ".clear()"); Dense d = ds[y]; V2 t(std::move(vs[y]));
                if (x != y) { vs[y].clear(); ds[y].assign(D, 0); } vs[x] = t; ds[x] = d; break; }
            case 4: { name = "plus"; hist.push_back("v" + std::to_string(z) + "=v" + std::to_string(x) + "+v" + std::to_string(y)); V2 t = vs[x] + vs[y]; Dense d(D); for (size_t q = 0; q < D; q++) d[q] = ds[x][q] ^ ds[y][q]; vs[z] = t; ds[z] = d; break; }
            case 5: case 6: { name = x == y ? "plus_assign_self" : "plus_assign"; hist.push_back("v" + std::to_string(x) + "+=v" + std::to_string(y)); Dense d(D); for (size_t q = 0; q < D; q++) d[q] = ds[x][q] ^ ds[y][q]; vs[x] += vs[y]; ds[x] = d; break; }
            case 7: { name = "dot"; hist.push_back("v" + std::to_string(x) + "*v" + std::to_string(y)); int got = vs[x] * vs[y]; int want = 0; for (size_t q = 0; q < D; q++) want ^= (ds[x][q] & ds[y][q]);
                if (got != want) fail("dot", "v*w returned " + std::to_string(got) + ", parity of the common coordinates is " + std::to_string(want)); break; }
            case 8: { name = "dot_set"; std::set<size_t> st; Dense d; randset(st, d); hist.push_back("v" + std::to_string(x) + "*set(|" + std::to_string(st.size()) + "|)"); int got = vs[x] * st; int want = 0; for (size_t q = 0; q < D; q++) want ^= (ds[x][q] & d[q]);
                if (got != want) fail("dot_set", "v*set returned " + std::to_string(got) + ", parity is " + std::to_string(want)); break; }
            case 9: { name = x == y ? "copy_assign_self" : "copy_assign"; hist.push_back("v" + std::to_string(x) + "=v" + std::to_string(y)); Dense d = ds[y]; vs[x] = vs[y]; ds[x] = d; break; }
            case 10: { name = x == y ? "move_assign_self" : "move_assign"; hist.push_back("v" + std::to_string(x) + "=move(v" + std::to_string(y) + ")" + (x != y ? "; v" + std::to_string(y) + ".clear()" : "")); Dense d = ds[y]; vs[x] = std::move(vs[y]);
                if (x != y) { vs[y].clear(); ds[y].assign(D, 0); } ds[x] = d; break; }
            case 11: { name = "clear"; hist.push_back("v" + std::to_string(x) + ".clear()"); vs[x].clear(); ds[x].assign(D, 0); break; }
            case 12: { name = "aliased_sum"; hist.push_back("v" + std::to_string(x) + "=v" + std::to_string(x) + "+v" + std::to_string(x)); vs[x] = vs[x] + vs[x]; ds[x].assign(D, 0); break; }
            default: { name = "chain"; hist.push_back("v" + std::to_string(z) + "=(v" + std::to_string(x) + "+v" + std::to_string(y) + ")+v" + std::to_string(z)); Dense d(D); for (size_t q = 0; q < D; q++) d[q] = ds[x][q] ^ ds[y][q] ^ ds[z][q]; vs[z] = (vs[x] + vs[y]) + vs[z]; ds[z] = d; break; }
            }
            opcount[name]++; ops_total++;
            for (int q = 0; q < pool && !bad; q++) if (!same(vs[q], ds[q], cmap, why)) fail("contents", "after '" + hist.back() + "': v" + std::to_string(q) + " " + why + " [coordinates: " + cdesc + "]");
        }
        co.hash = mix(case_seed(a.seed, "C17h", i), D); co.nontrivial = nops >= 5;
        co.tag(D <= 8 ? "dim<=8" : D <= 64 ? "dim<=64" : D < 1000 ? "dim>64" : "dim>=1000"); co.tag(cmap.empty() || cmap[0] == 0 ? "base:0" : cmap[0] < 70000 ? "base:2^8..2^16" : "base:>=2^31"); if (has_gaps) co.tag("coordinate_gaps>=2^31");
        if ((int) (i - a.from) < a.samples) { std::string h; for (size_t q = 0; q < hist.size() && q < 12; q++) h += hist[q] + "; "; co.sample = J().num("dimension", (ll) D).num("pool", pool).num("operations", nops).str("history_prefix", h).done(); }
        co.end();
    }
    J j; j.num("operations", ops_total); for (auto &p : opcount) j.num("op:" + p.first, p.second); emit_summary(j.done());
}

// ------------------------------------------------------------------------------------------------
// C18
// ------------------------------------------------------------------------------------------------
template<class T> static const char* tname();
template<> const char* tname<int>() { return "int"; }
template<> const char* tname<long long>() { return "long long"; }
template<> const char* tname<BigInt>() { return "cpp_int"; }
template<class T> static std::string tstr(const T &v) { std::ostringstream o; o << v; return o.str(); }

static BigInt ref_gcd(BigInt a, BigInt b) { if (a < 0) a = -a; if (b < 0) b = -b; while (b != 0) { BigInt t = a % b; a = b; b = t; } return a; }

template<class T>
static bool check_gcd(CaseOut &co, const T &a0, const T &b0, long &evals) {
    T a = a0, b = b0, x = 0, y = 0;
    T g = parmcb::fp<T>::ext_gcd(a, b, x, y);
    evals++;
    BigInt A = BigInt(a0), B = BigInt(b0), X = BigInt(x), Y = BigInt(y), Gr = ref_gcd(A, B);
    std::string cj = J().str("function", "fp<T>::ext_gcd").str("T", tname<T>()).str("a", tstr(a0)).str("b", tstr(b0)).done();
    std::string obs = J().str("returned", tstr(g)).str("x", tstr(x)).str("y", tstr(y)).str("gcd", tstr(Gr)).done();
    if (BigInt(g) != Gr) { co.viol(std::string("ext_gcd:wrong_gcd"), "ext_gcd(" + tstr(a0) + "," + tstr(b0) + ") returned " + tstr(g) + ", gcd is " + tstr(Gr), cj, "-", obs); return false; }
    if (A * X + B * Y != Gr) {
        std::string cls = (b0 == 0 && a0 < 0) ? "bezout(a<0,b=0)" : (a0 == 0 ? "bezout(a=0)" : "bezout");
        co.viol("ext_gcd:" + cls, "a*x + b*y = " + tstr(BigInt(A * X + B * Y)) + " != gcd " + tstr(Gr) + " for a=" + tstr(a0) + " b=" + tstr(b0) + " x=" + tstr(x) + " y=" + tstr(y), cj, "-", obs); return false; }
    return true;
}

template<class T>
static bool check_inverse(CaseOut &co, const T &a0, const T &p0, long &evals, long &threw) {
    T a = a0, p = p0; bool ex = false; T ret = 0;
    try { ret = parmcb::fp<T>::get_mult_inverse(a, p); }
    catch (std::exception *e) { ex = true; delete e; }
    catch (std::exception &) { ex = true; }
    catch (...) { ex = true; }
    evals++;
    BigInt G = ref_gcd(BigInt(a0), BigInt(p0));
    std::string cj = J().str("function", "fp<T>::get_mult_inverse").str("T", tname<T>()).str("a", tstr(a0)).str("p", tstr(p0)).done();
    if (G == 1) {
        if (ex) { co.viol("mult_inverse:threw_for_unit", "threw although gcd(a,p)=1 for a=" + tstr(a0) + " p=" + tstr(p0), cj, "-"); return false; }
        BigInt prod = (BigInt(a0) * BigInt(ret)) % BigInt(p0); if (prod < 0) prod += BigInt(p0);
        if (prod != 1 % BigInt(p0)) { co.viol("mult_inverse:wrong", "a*ret mod p = " + tstr(prod) + " for a=" + tstr(a0) + " p=" + tstr(p0) + " ret=" + tstr(ret), cj, "-"); return false; }
    } else {
        threw++;
        if (!ex) { co.viol("mult_inverse:no_throw", "returned " + tstr(ret) + " although gcd(a,p)=" + tstr(G) + " for a=" + tstr(a0) + " p=" + tstr(p0), cj, "-"); return false; }
    }
    return true;
}

static bool mr_is_prime(unsigned long long n) {
    if (n < 2) return false;
    for (unsigned long long p : {2ULL, 3ULL, 5ULL, 7ULL, 11ULL, 13ULL, 17ULL, 19ULL, 23ULL, 29ULL, 31ULL, 37ULL}) { if (n % p == 0) return n == p; }
    unsigned long long d = n - 1; int s = 0; while (!(d & 1)) { d >>= 1; s++; }
    auto mul = [&](unsigned long long a, unsigned long long b) { return (unsigned long long) ((__uint128_t) a * b % n); };
    auto pw = [&](unsigned long long b, unsigned long long e) { unsigned long long r = 1; b %= n; while (e) { if (e & 1) r = mul(r, b); b = mul(b, b); e >>= 1; } return r; };
    for (unsigned long long a : {2ULL, 3ULL, 5ULL, 7ULL, 11ULL, 13ULL, 17ULL, 19ULL, 23ULL, 29ULL, 31ULL, 37ULL}) {
        unsigned long long x = pw(a, d); if (x == 1 || x == n - 1) continue; bool comp = true;
        for (int i = 1; i < s; i++) { x = mul(x, x); if (x == n - 1) { comp = false; break; } }
        if (comp) return false;
    }
    return true;
}

template<class T>
static bool check_prime(CaseOut &co, unsigned long long p, long &evals) {
    bool got = parmcb::primes<T>::is_prime(T(p)); evals++;
    bool want = mr_is_prime(p);
    if (got != want) {
        co.viol(std::string("is_prime:") + (p == 2 ? "two" : want ? "prime_rejected" : "composite_accepted"), "is_prime(" + std::to_string(p) + ") = " + (got ? "true" : "false") + " for T=" + tname<T>(),
                J().str("function", "primes<T>::is_prime").str("T", tname<T>()).unum("p", p).done(), "-");
        return false; }
    return true;
}

static void mode_c18gcd(const Args &a) { // case index = a + 64 in the exhaustive sweep; beyond 129: random large operands
    long evals = 0;
    for (uint64_t i = a.from; i < a.to; i++) {
        CaseOut co(i);
        if (i < 129) {
            int av = (int) i - 64; bool ok = true;
            for (int bv = -64; bv <= 64 && ok; bv++) { if (av == 0 && bv == 0) continue;
                ok = check_gcd<int>(co, av, bv, evals) && check_gcd<long long>(co, av, bv, evals) && check_gcd<BigInt>(co, BigInt(av), BigInt(bv), evals); }
            co.tag("exhaustive_row"); co.hash = mix(18, i); co.nontrivial = true;
            if ((int) (i - a.from) < a.samples) co.sample = J().str("sweep", "ext_gcd for a=" + std::to_string(av) + ", all b in [-64,64], T in {int,long long,cpp_int}").done();
        } else {
            Rng r(case_seed(a.seed, "C18gcd", i)); bool ok = true; std::string first;
            for (int q = 0; q < 60 && ok; q++) {
                int sa = r.chance(0.5) ? -1 : 1, sb = r.chance(0.5) ? -1 : 1;
                ll la = sa * r.range(0, (1LL << 31) - 1), lb = sb * r.range(0, (1LL << 31) - 1); if (r.chance(0.1)) lb = 0; if (r.chance(0.1)) la = 0; if (la == 0 && lb == 0) la = 1;
                if (r.chance(0.3)) { ll g = r.range(1, 1 << 15); la = sa * (r.range(0, 1 << 15) * g); lb = sb * (r.range(0, 1 << 15) * g); if (la == 0 && lb == 0) lb = g; }
                int ia = (int) (la % (1 << 15)), ib = (int) (lb % (1 << 15)); if (ia == 0 && ib == 0) ia = 3;
                BigInt ba = 0, bb = 0; int limbs = (int) r.range(1, 4); for (int l = 0; l < limbs; l++) { ba = (ba << 50) + BigInt(r.range(0, (1LL << 50) - 1)); bb = (bb << 50) + BigInt(r.range(0, (1LL << 50) - 1)); }
                if (r.chance(0.3)) { BigInt g = BigInt(r.range(1, 1LL << 40)); ba *= g; bb *= g; } if (sa < 0) ba = -ba; if (sb < 0) bb = -bb; if (ba == 0 && bb == 0) ba = 1;
                if (first.empty()) first = "a=" + tstr(ba) + " b=" + tstr(bb);
                ok = check_gcd<long long>(co, la, lb, evals) && check_gcd<int>(co, ia, ib, evals) && check_gcd<BigInt>(co, ba, bb, evals);
            }
            co.tag("random_large"); co.hash = case_seed(a.seed, "C18gcdh", i); co.nontrivial = true;
            if ((int) (i - a.from) < a.samples) co.sample = J().str("random_operands_like", first).done();
        }
        co.end();
    }
    emit_summary(J().num("ext_gcd_evaluations", evals).done());
}

static void mode_c18inv(const Args &a) { // case index = modulus p (>= 2) exhaustive over a in [-3p,3p]; p > 200: random large
    long evals = 0, threw = 0;
    for (uint64_t i = a.from; i < a.to; i++) {
        CaseOut co(i);
        ll p = (ll) i + 2;
        if (p <= 200) {
            bool ok = true;
            for (ll av = -3 * p; av <= 3 * p && ok; av++) ok = check_inverse<int>(co, (int) av, (int) p, evals, threw) && check_inverse<long long>(co, av, p, evals, threw) && check_inverse<BigInt>(co, BigInt(av), BigInt(p), evals, threw);
            co.tag("exhaustive_modulus"); co.hash = mix(1818, i); co.nontrivial = true;
            if ((int) (i - a.from) < a.samples) co.sample = J().str("sweep", "get_mult_inverse for p=" + std::to_string(p) + ", all a in [-3p,3p], three types").done();
        } else {
            Rng r(case_seed(a.seed, "C18inv", i)); bool ok = true; std::string first;
            for (int q = 0; q < 40 && ok; q++) {
                ll lp = r.range(2, (1LL << 31) - 1), la = r.range(-(1LL << 31) + 1, (1LL << 31) - 1);
                if (r.chance(0.3)) { ll g = r.range(2, 1000); lp = g * r.range(1, 1 << 20); la = g * r.range(-(1 << 20), 1 << 20); }
                int ip = (int) r.range(2, (1 << 15) - 1), ia = (int) r.range(-(1 << 15) + 1, (1 << 15) - 1);
                BigInt bp = 0, ba = 0; int limbs = (int) r.range(1, 4); for (int l = 0; l < limbs; l++) { bp = (bp << 50) + BigInt(r.range(0, (1LL << 50) - 1)); ba = (ba << 50) + BigInt(r.range(0, (1LL << 50) - 1)); }
                if (bp < 2) bp = 2; if (r.chance(0.5)) ba = -ba;
                if (first.empty()) first = "a=" + tstr(ba) + " p=" + tstr(bp);
                ok = check_inverse<long long>(co, la, lp, evals, threw) && check_inverse<int>(co, ia, ip, evals, threw) && check_inverse<BigInt>(co, ba, bp, evals, threw);
            }
            co.tag("random_large"); co.hash = case_seed(a.seed, "C18invh", i); co.nontrivial = true;
            if ((int) (i - a.from) < a.samples) co.sample = J().str("random_operands_like", first).done();
        }
        co.end();
    }
    emit_summary(J().num("mult_inverse_evaluations", evals).num("mult_inverse_expected_throw", threw).done());
}

static void mode_c18prime(const Args &a) { // case i < blocks: block of 1000 consecutive integers from 2; beyond: random large
    long evals = 0; ll blocks = a.geti("blocks", 200);
    for (uint64_t i = a.from; i < a.to; i++) {
        CaseOut co(i);
        if ((ll) i < blocks) {
            bool ok = true; unsigned long long lo = std::max<unsigned long long>(2, i * 1000), hi = i * 1000 + 999;
            for (unsigned long long p = lo; p <= hi && ok; p++) { ok = check_prime<int>(co, p, evals) && check_prime<long long>(co, p, evals); if (ok && (ll) i < a.geti("cpp_blocks", 20)) ok = check_prime<BigInt>(co, p, evals); }
            co.tag("exhaustive_block"); co.hash = mix(181818, i); co.nontrivial = true;
            if ((int) (i - a.from) < a.samples) co.sample = J().str("sweep", "is_prime for all p in [" + std::to_string(lo) + "," + std::to_string(hi) + "]").done();
        } else {
            Rng r(case_seed(a.seed, "C18prime", i)); bool ok = true; unsigned long long firstp = 0;
            for (int q = 0; q < 12 && ok; q++) {
                unsigned long long p = (unsigned long long) r.range(200000, 1000000000000LL);
                if (r.chance(0.4)) { // force primes / squares of primes / semiprimes
                    unsigned long long base = (unsigned long long) r.range(1000, 1000000); while (!mr_is_prime(base)) base++;
                    int k = (int) r.below(3); if (k == 0) p = base * base; else if (k == 1) { unsigned long long b2 = (unsigned long long) r.range(1000, 1000000); while (!mr_is_prime(b2)) b2++; p = base * b2; } else { p = (unsigned long long) r.range(200000, 1000000000000LL); while (!mr_is_prime(p)) p++; }
                }
                if (!firstp) firstp = p;
                ok = check_prime<long long>(co, p, evals);
                if (ok && p < 2000000000ULL) ok = check_prime<int>(co, p, evals);
                if (ok && q < 2) ok = check_prime<BigInt>(co, p, evals);
            }
            co.tag("random_large"); co.hash = case_seed(a.seed, "C18primeh", i); co.nontrivial = true;
            if ((int) (i - a.from) < a.samples) co.sample = J().unum("random_p_like", firstp).done();
        }
        co.end();
    }
    emit_summary(J().num("is_prime_evaluations", evals).done());
}

// SpVecFP histories
template<class P>
static bool fp_same(const parmcb::SpVecFP<P> &v, const std::vector<ll> &d, ll p, const std::vector<size_t> &cmap, std::string &why) {
    std::vector<std::pair<size_t, ll>> want; for (size_t i = 0; i < d.size(); i++) if (d[i]) want.push_back({cmap[i], d[i]});
    std::vector<std::pair<size_t, ll>> got;
    for (auto it = v.begin(); it != v.end(); ++it) { P val = boost::get<1>(*it); if (val < 1 || val > P(p - 1)) { why = "entry value " + tstr(val) + " outside 1..p-1 at index " + std::to_string(boost::get<0>(*it)); return false; } got.push_back({boost::get<0>(*it), (ll) static_cast<long long>(val)}); }
    for (size_t i = 1; i < got.size(); i++) if (!(got[i - 1].first < got[i].first)) { why = "indices not strictly increasing"; return false; }
    if (got != want) { std::string g, w; for (auto &x : got) g += "(" + std::to_string(x.first) + "," + std::to_string(x.second) + ")"; for (auto &x : want) w += "(" + std::to_string(x.first) + "," + std::to_string(x.second) + ")"; why = "entries " + g + " differ from dense model " + w; return false; }
    if (v.size() != want.size()) { why = "size() disagrees"; return false; }
    return true;
}

template<class P>
static void fp_history(CaseOut &co, Rng &r, const Args &a, uint64_t i, long &ops_total) {
    static const ll primes_small[] = {2, 3, 5, 7, 11, 13, 31, 101, 257, 997, 7919, 32749};
    ll p = primes_small[r.below(std::is_same<P, int>::value ? 12 : 12)];
    if (!std::is_same<P, int>::value && r.chance(0.3)) p = 2147483647LL;       // 2^31-1: products fit in 63 bits
    ll amax = std::is_same<P, int>::value ? ((1LL << 31) - 1) / std::max<ll>(1, p - 1) : (std::is_same<P, long long>::value ? ((1ULL << 62) / (unsigned long long) std::max<ll>(1, p - 1)) : (1LL << 60));
    if (amax < 1) amax = 1;
    size_t D = (size_t) r.range(1, 40); int pool = (int) r.range(2, 6); int nops = (int) r.range(1, (ll) a.geti("max_ops", 120));
    std::string cdesc; const std::vector<size_t> cmap = make_coordinate_map(r, D, cdesc);
    std::vector<parmcb::SpVecFP<P>> vs(pool, parmcb::SpVecFP<P>(P(p))); std::vector<std::vector<ll>> ds(pool, std::vector<ll>(D, 0));
    // every vector carries its own prime: an assignment (copy, move, from a temporary) hands the source's prime to the target, so a
    // pool that mixes primes (default-constructed vectors have prime 3; work vectors reused for another field) is part of "every
    // sequence of operations"; arithmetic is only ever done between vectors of the same prime
    std::vector<ll> pv(pool, p); bool mixed = r.chance(0.4); bool crossed = false;
    auto foreign_prime = [&]() -> ll { ll q2 = p; for (int t = 0; t < 8 && q2 == p; t++) { q2 = primes_small[r.below(12)]; if (q2 > p) q2 = p; } return q2; };
    if (mixed) for (int q = 0; q < pool; q++) if (r.chance(0.5)) { if (r.chance(0.4)) { vs[q] = parmcb::SpVecFP<P>(); pv[q] = 3; } else { ll q2 = foreign_prime(); vs[q] = parmcb::SpVecFP<P>(P(q2)); pv[q] = q2; } if (pv[q] > p) { vs[q] = parmcb::SpVecFP<P>(P(p)); pv[q] = p; } }
    std::vector<std::string> hist; bool bad = false;
    auto fail = [&](const std::string &kind, const std::string &msg) { std::string h; for (auto &x : hist) h += x + "; ";
        co.viol("spvecfp:" + kind, msg, J().str("P", tname<P>()).num("p", p).num("dimension", (ll) D).str("history", h).done(), "history seed=" + std::to_string(a.seed) + " case=" + std::to_string(i)); bad = true; };
    auto modq = [&](__int128 v, ll q) { ll m = (ll) (v % q); if (m < 0) m += q; return m; };
    for (int op = 0; op < nops && !bad; op++) {
        int x = (int) r.below(pool), y = (int) r.below(pool), z = (int) r.below(pool); int kind = (int) r.below(mixed ? 12 : 11); std::string why;
        auto scalar = [&]() -> ll { int k = (int) r.below(6); if (k == 0) return 0; if (k == 1) return p <= amax ? pv[x] * r.range(-2, 2) : 0; if (k == 2) return -r.range(1, std::min<ll>(amax, 50)); if (k == 3) return r.range(1, std::min<ll>(amax, 50)); ll v = r.range(1, amax); return r.chance(0.5) ? -v : v; };
        if ((kind == 2 || kind == 3 || kind == 4 || kind == 7) && pv[x] != pv[y]) kind = r.chance(0.5) ? 8 : 9;   // different fields: only assignment makes sense
        const ll px = pv[x];
        switch (kind) {
        case 0: case 1: { size_t q = r.below(D); hist.push_back("v" + std::to_string(x) + "=unit(" + std::to_string(q) + ")"); vs[x] = cmap[q]; ds[x].assign(D, 0); ds[x][q] = 1 % px; break; }
        case 2: { hist.push_back("v" + std::to_string(z) + "=v" + std::to_string(x) + "+v" + std::to_string(y)); std::vector<ll> d(D); for (size_t q = 0; q < D; q++) d[q] = modq((__int128) ds[x][q] + ds[y][q], px);
            if (pv[z] != px) crossed = true;
            if (r.chance(0.5)) { parmcb::SpVecFP<P> t = vs[x] + vs[y]; vs[z] = t; } else vs[z] = vs[x] + vs[y];      // copy assignment of a named sum / move assignment of the temporary
            ds[z] = d; pv[z] = px; break; }
        case 3: case 4: { hist.push_back("v" + std::to_string(x) + "+=v" + std::to_string(y)); std::vector<ll> d(D); for (size_t q = 0; q < D; q++) d[q] = modq((__int128) ds[x][q] + ds[y][q], px); vs[x] += vs[y]; ds[x] = d; break; }
        case 5: { ll sc = scalar(); hist.push_back("v" + std::to_string(z) + "=v" + std::to_string(x) + "*" + std::to_string(sc)); std::vector<ll> d(D); for (size_t q = 0; q < D; q++) d[q] = modq((__int128) ds[x][q] * sc, px);
            if (pv[z] != px) crossed = true;
            if (r.chance(0.5)) { parmcb::SpVecFP<P> t = vs[x] * P(sc); vs[z] = t; } else vs[z] = vs[x] * P(sc);
            ds[z] = d; pv[z] = px; break; }
        case 6: { ll sc = scalar(); hist.push_back("v" + std::to_string(x) + "*=" + std::to_string(sc)); for (size_t q = 0; q < D; q++) ds[x][q] = modq((__int128) ds[x][q] * sc, px); vs[x] *= P(sc); break; }
        case 7: { hist.push_back("v" + std::to_string(x) + "*v" + std::to_string(y)); __int128 acc = 0; for (size_t q = 0; q < D; q++) acc = (acc + (__int128) ds[x][q] * ds[y][q]) % px; P got = vs[x] * vs[y];
            if (got < 0 || got >= P(px) || got != P((ll) acc)) fail("dot", "dot product returned " + tstr(got) + ", arithmetic mod " + std::to_string(px) + " gives " + std::to_string((ll) acc)); break; }
        case 8: { hist.push_back("v" + std::to_string(x) + "=v" + std::to_string(y)); if (pv[x] != pv[y]) crossed = true; std::vector<ll> d = ds[y]; vs[x] = vs[y]; ds[x] = d; pv[x] = pv[y]; break; }
        case 9: { hist.push_back("v" + std::to_string(x) + "=move(v" + std::to_string(y) + ")"); if (pv[x] != pv[y]) crossed = true; std::vector<ll> d = ds[y]; vs[x] = std::move(vs[y]); if (x != y) { vs[y].clear(); ds[y].assign(D, 0); } ds[x] = d; pv[x] = pv[y]; break; }
        case 11: { ll q2 = r.chance(0.3) ? 3 : foreign_prime(); if (q2 > p) q2 = p; hist.push_back("v" + std::to_string(x) + "=SpVecFP(" + std::to_string(q2) + ")");
            if (q2 == 3 && r.chance(0.5)) vs[x] = parmcb::SpVecFP<P>(); else vs[x] = parmcb::SpVecFP<P>(P(q2)); ds[x].assign(D, 0); pv[x] = q2; break; }
        default: { hist.push_back("v" + std::to_string(x) + ".clear()"); vs[x].clear(); ds[x].assign(D, 0); break; }
        }
        ops_total++;
        for (int q = 0; q < pool && !bad; q++) {
            if (!fp_same<P>(vs[q], ds[q], pv[q], cmap, why)) fail("contents", "after '" + hist.back() + "': v" + std::to_string(q) + " (over F_" + std::to_string(pv[q]) + ") " + why + " [coordinates: " + cdesc + "]");
            else if (vs[q].prime() != P(pv[q])) fail("prime", "after '" + hist.back() + "': v" + std::to_string(q) + " reports prime " + tstr(vs[q].prime()) + ", the vector it was assigned from is over F_" + std::to_string(pv[q]));
        }
    }
    if (crossed) co.tag("assignment_across_primes");
    co.tag(std::string("P:") + tname<P>()); co.tag(p == 2 ? "p=2" : p < 100 ? "p<100" : "p>=100"); if (cdesc.find(" 0 gaps") == std::string::npos) co.tag("coordinate_gaps>=2^31");
    if ((int) (i - a.from) < a.samples) { std::string h; for (size_t q = 0; q < hist.size() && q < 10; q++) h += hist[q] + "; "; co.sample = J().str("P", tname<P>()).num("p", p).num("dimension", (ll) D).num("operations", nops).str("history_prefix", h).done(); }
    co.nontrivial = nops >= 5;
}

static void mode_c18vec(const Args &a) {
    long ops = 0;
    for (uint64_t i = a.from; i < a.to; i++) {
        Rng r(case_seed(a.seed, "C18vec", i));
        CaseOut co(i);
        int t = (int) r.below(3);
        if (t == 0) fp_history<int>(co, r, a, i, ops); else if (t == 1) fp_history<long long>(co, r, a, i, ops); else fp_history<BigInt>(co, r, a, i, ops);
        co.hash = case_seed(a.seed, "C18vech", i);
        co.end();
    }
    emit_summary(J().num("spvecfp_operations", ops).done());
}

int main(int argc, char **argv) {
    Args a(argc, argv);
    if (a.mode == "c17") mode_c17(a);
    else if (a.mode == "c18gcd") mode_c18gcd(a);
    else if (a.mode == "c18inv") mode_c18inv(a);
    else if (a.mode == "c18prime") mode_c18prime(a);
    else if (a.mode == "c18vec") mode_c18vec(a);
    else { fprintf(stderr, "unknown mode\n"); return 2; }
    return 0;
}
