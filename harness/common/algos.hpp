// Uniform access to the parmcb entry points under test.
#pragma once
#include "vcommon.hpp"
#include <parmcb/parmcb.hpp>

namespace vf {

enum ExactVariant { V_SIGNED = 0, V_FVS = 1, V_ISO = 2, V_SIGNED_TBB = 3, V_FVS_TBB = 4, V_ISO_TBB = 5 };
static const char *exact_names[] = {"mcb_sva_signed", "mcb_sva_fvs_trees", "mcb_sva_iso_trees", "mcb_sva_signed_tbb",
        "mcb_sva_fvs_trees_tbb", "mcb_sva_iso_trees_tbb"};
static const char *approx_names[] = {"approx_mcb_sva_signed", "approx_mcb_sva_fvs_trees", "approx_mcb_sva_iso_trees",
        "approx_mcb_sva_signed_tbb", "approx_mcb_sva_fvs_trees_tbb", "approx_mcb_sva_iso_trees_tbb"};

template<class W, class WMapT, class OutIt>
inline W run_exact_it(int variant, const typename BG<W>::Graph &g, WMapT w, OutIt out) {
    switch (variant) {
    case V_SIGNED: return parmcb::mcb_sva_signed(g, w, out);
    case V_FVS: return parmcb::mcb_sva_fvs_trees(g, w, out);
    case V_ISO: return parmcb::mcb_sva_iso_trees(g, w, out);
#ifndef VF_NO_TBB_VARIANTS
    case V_SIGNED_TBB: return parmcb::mcb_sva_signed_tbb(g, w, out);
    case V_FVS_TBB: return parmcb::mcb_sva_fvs_trees_tbb(g, w, out);
    case V_ISO_TBB: return parmcb::mcb_sva_iso_trees_tbb(g, w, out);
#endif
    }
    abort();
}
template<class W, class WMapT>
inline W run_exact(int variant, const typename BG<W>::Graph &g, WMapT w, std::list<std::list<typename BG<W>::Edge>> &out) {
    return run_exact_it<W>(variant, g, w, std::back_inserter(out));
}

#ifdef VF_WITH_APPROX
template<class W, class WMapT, class OutIt>
inline W run_approx_it(int variant, const typename BG<W>::Graph &g, WMapT w, std::size_t k, OutIt out) {
    switch (variant) {
    case 0: return parmcb::approx_mcb_sva_signed(g, w, k, out);
    case 1: return parmcb::approx_mcb_sva_fvs_trees(g, w, k, out);
    case 2: return parmcb::approx_mcb_sva_iso_trees(g, w, k, out);
#ifndef VF_NO_TBB_VARIANTS
    case 3: return parmcb::approx_mcb_sva_signed_tbb(g, w, k, out);
    case 4: return parmcb::approx_mcb_sva_fvs_trees_tbb(g, w, k, out);
    case 5: return parmcb::approx_mcb_sva_iso_trees_tbb(g, w, k, out);
#endif
    }
    abort();
}
template<class W, class WMapT>
inline W run_approx(int variant, const typename BG<W>::Graph &g, WMapT w, std::size_t k,
        std::list<std::list<typename BG<W>::Edge>> &out) {
    return run_approx_it<W>(variant, g, w, k, std::back_inserter(out));
}
#endif

// a weight in units -> the W value the library should return for an exactly summable total
template<class W> inline bool value_equals_units(const GraphSpec &s, W value, ll units) {
    return value == to_weight<W>(s, units);
}

inline std::string cycles_json_units(const std::vector<ll> &w) { return jnums(w); }

} // namespace vf
