// Layout scrambler: a replacement global operator new/delete.  While scrambling is switched on
// (vscr::begin .. vscr::end, main thread only, while a graph is being built) requests of at most
// 64 bytes are served from a pool of 64-byte slots handed out in a seeded pseudo-random order, so
// the std::list nodes that hold the edge properties - whose ADDRESSES define the order of every
// std::set<Edge>/std::map<Edge,..> inside parmcb - end up in an order that is a function of the seed.
// Under a sanitizer the replacement is compiled out (the sanitizer owns the allocator) and
// begin/end are no-ops.
#pragma once
#include <cstdlib>
#include <cstdint>
#include <new>
#include <atomic>
#include <vector>

#if defined(__SANITIZE_ADDRESS__) || defined(__SANITIZE_THREAD__)
#define VSCR_DISABLED 1
#endif
#if defined(__has_feature)
#if __has_feature(address_sanitizer) || __has_feature(thread_sanitizer) || __has_feature(memory_sanitizer)
#define VSCR_DISABLED 1
#endif
#endif

namespace vscr {
#ifndef VSCR_DISABLED
static const size_t SLOT = 64;
static const int MAXPOOLS = 64;
struct Pool { std::atomic<uintptr_t> lo{0}, hi{0}; std::atomic<long> live{0}; void *mem = nullptr; };
static Pool g_pools[MAXPOOLS];
static std::atomic<int> g_npools{0};
static bool g_on = false;                 // main thread only
static void **g_slots = nullptr; static size_t g_nslots = 0; static int g_active = -1;

inline uint64_t sm(uint64_t &s) { uint64_t z = (s += 0x9E3779B97F4A7C15ULL); z = (z ^ (z >> 30)) * 0xBF58476D1CE4E5B9ULL; z = (z ^ (z >> 27)) * 0x94D049BB133111EBULL; return z ^ (z >> 31); }

inline void begin(bool scramble, uint64_t seed, size_t nslots) {
    if (!scramble) return;
    int slot = -1;
    for (int i = 0; i < MAXPOOLS; i++) if (g_pools[i].mem == nullptr) { slot = i; break; }
    if (slot < 0) return; // no free pool descriptor: run unscrambled (counted by the layout signature)
    char *mem = (char*) malloc(nslots * SLOT);
    if (!mem) return;
    g_slots = (void**) malloc(nslots * sizeof(void*));
    for (size_t i = 0; i < nslots; i++) g_slots[i] = mem + i * SLOT;
    for (size_t i = nslots; i > 1; i--) { size_t j = sm(seed) % i; void *t = g_slots[i - 1]; g_slots[i - 1] = g_slots[j]; g_slots[j] = t; }
    g_nslots = nslots;
    Pool &p = g_pools[slot]; p.mem = mem; p.live = 0; p.lo = (uintptr_t) mem; p.hi = (uintptr_t) mem + nslots * SLOT;
    if (slot >= g_npools.load()) g_npools = slot + 1;
    g_active = slot; g_on = true;
}
inline void end() {
    g_on = false;
    if (g_slots) { free(g_slots); g_slots = nullptr; }
    g_nslots = 0;
    if (g_active >= 0) { Pool &p = g_pools[g_active]; g_active = -1; if (p.live.load() == 0) { void *m = p.mem; p.lo = 0; p.hi = 0; p.mem = nullptr; free(m); } }
}
inline void* alloc(size_t n) {
    if (g_on && n <= SLOT && g_nslots > 0) { void *p = g_slots[--g_nslots]; g_pools[g_active].live++; return p; }
    void *p = malloc(n ? n : 1);
    if (!p) throw std::bad_alloc();
    return p;
}
inline void dealloc(void *p) {
    if (!p) return;
    int np = g_npools.load(std::memory_order_relaxed);
    uintptr_t a = (uintptr_t) p;
    for (int i = 0; i < np; i++) {
        Pool &q = g_pools[i];
        if (a >= q.lo.load(std::memory_order_relaxed) && a < q.hi.load(std::memory_order_relaxed)) {
            long left = --q.live;
            if (left == 0 && i != g_active) { void *m = q.mem; q.lo = 0; q.hi = 0; q.mem = nullptr; free(m); }
            return;
        }
    }
    free(p);
}
#else
inline void begin(bool, uint64_t, size_t) {}
inline void end() {}
#endif
} // namespace vscr

#ifndef VSCR_DISABLED
void* operator new(size_t n) { return vscr::alloc(n); }
void* operator new[](size_t n) { return vscr::alloc(n); }
void operator delete(void *p) noexcept { vscr::dealloc(p); }
void operator delete[](void *p) noexcept { vscr::dealloc(p); }
void operator delete(void *p, size_t) noexcept { vscr::dealloc(p); }
void operator delete[](void *p, size_t) noexcept { vscr::dealloc(p); }
#endif
