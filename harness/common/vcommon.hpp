// Shared machinery for the parmcb runtime monitors: PRNG, JSON output, graph specifications,
// workload generators, the independent oracles (Horton+Gauss, brute force, union-find, exact
// Dijkstra) and the cycle-basis validity monitor.  Nothing in here includes a parmcb header.
#pragma once
#include <cstdint>
#include <cstdio>
#include <cstdlib>
#include <cstring>
#include <cmath>
#include <string>
#include <vector>
#include <map>
#include <set>
#include <list>
#include <queue>
#include <tuple>
#include <algorithm>
#include <sstream>
#include <fstream>
#include <functional>
#include <numeric>
#include <boost/graph/adjacency_list.hpp>

namespace vf {

typedef long long ll;

// ------------------------------------------------------------------------------------------------
// PRNG: splitmix64; every case derives from (VERIF_SEED, check id, case index)
// ------------------------------------------------------------------------------------------------
struct Rng {
    uint64_t s;
    explicit Rng(uint64_t seed = 0) : s(seed) {}
    uint64_t next() {
        uint64_t z = (s += 0x9E3779B97F4A7C15ULL);
        z = (z ^ (z >> 30)) * 0xBF58476D1CE4E5B9ULL;
        z = (z ^ (z >> 27)) * 0x94D049BB133111EBULL;
        return z ^ (z >> 31);
    }
    uint64_t operator()() { return next(); }
    // uniform in [0,n)
    uint64_t below(uint64_t n) { return n ? next() % n : 0; }
    // uniform in [a,b]
    ll range(ll a, ll b) { if (b <= a) return a; return a + (ll) below((uint64_t) (b - a + 1)); }
    double real() { return (next() >> 11) * (1.0 / 9007199254740992.0); }
    bool chance(double p) { return real() < p; }
    template<class V> void shuffle(V &v) {
        for (size_t i = v.size(); i > 1; i--) std::swap(v[i - 1], v[below(i)]);
    }
    typedef uint64_t result_type;
    static constexpr uint64_t min() { return 0; }
    static constexpr uint64_t max() { return ~0ULL; }
};

inline uint64_t mix(uint64_t a, uint64_t b) {
    Rng r(a ^ (b * 0xD6E8FEB86659FD93ULL + 0x2545F4914F6CDD1DULL));
    r.next();
    return r.next();
}
inline uint64_t case_seed(uint64_t seed, const char *check, uint64_t idx) {
    uint64_t h = 1469598103934665603ULL;
    for (const char *p = check; *p; p++) h = (h ^ (unsigned char) *p) * 1099511628211ULL;
    return mix(mix(seed, h), idx);
}

// ------------------------------------------------------------------------------------------------
// minimal JSON writer
// ------------------------------------------------------------------------------------------------
inline std::string jesc(const std::string &s) {
    std::string o;
    for (unsigned char c : s) {
        if (c == '"' || c == '\\') { o += '\\'; o += (char) c; }
        else if (c == '\n') o += "\\n";
        else if (c == '\t') o += "\\t";
        else if (c < 0x20 || c >= 0x7f) { char b[8]; snprintf(b, sizeof b, "\\u%04x", c); o += b; }
        else o += (char) c;
    }
    return o;
}
struct J {
    std::string s;
    bool first = true;
    J() { s = "{"; }
    J& raw(const std::string &k, const std::string &v) {
        if (!first) s += ","; first = false;
        s += "\"" + jesc(k) + "\":" + v; return *this;
    }
    J& str(const std::string &k, const std::string &v) { return raw(k, "\"" + jesc(v) + "\""); }
    J& num(const std::string &k, ll v) { return raw(k, std::to_string(v)); }
    J& unum(const std::string &k, uint64_t v) { return raw(k, std::to_string(v)); }
    J& dbl(const std::string &k, double v) {
        char b[64];
        if (std::isfinite(v)) snprintf(b, sizeof b, "%.17g", v); else snprintf(b, sizeof b, "\"%g\"", v);
        return raw(k, b);
    }
    J& boolean(const std::string &k, bool v) { return raw(k, v ? "true" : "false"); }
    std::string done() const { return s + "}"; }
};
inline std::string jarr(const std::vector<std::string> &v, bool quote) {
    std::string o = "[";
    for (size_t i = 0; i < v.size(); i++) { if (i) o += ","; o += quote ? "\"" + jesc(v[i]) + "\"" : v[i]; }
    return o + "]";
}
template<class T> inline std::string jnums(const std::vector<T> &v) {
    std::string o = "[";
    for (size_t i = 0; i < v.size(); i++) { if (i) o += ","; o += std::to_string(v[i]); }
    return o + "]";
}

// ------------------------------------------------------------------------------------------------
// Graph specification: the abstract weighted graph the generator produced.  Weights are int64
// "units"; the real weight is  units * 2^-wshift  (wmode 0: integer / dyadic, exactly summable) or
// units / 1000  (wmode 1: decimal thousandths, C09 only) or units / 1e8 (wmode 2: eight decimals, C09 only).
// ------------------------------------------------------------------------------------------------
struct Ed { int u, v; ll w; };
struct GraphSpec {
    int n = 0;
    std::vector<Ed> edges;      // in insertion order
    int wshift = 0;
    int wmode = 0;
    std::string family;
    bool tie_rich = false;      // weights drawn from <=3 distinct values or regular topology with unit weights
    double weight_of(ll units) const {
        if (wmode == 1) return (double) units / 1000.0;
        if (wmode == 2) return (double) units / 100000000.0;
        return std::ldexp((double) units, -wshift);
    }
    int m() const { return (int) edges.size(); }
};

inline uint64_t canon_hash(const GraphSpec &g) {
    std::vector<std::tuple<int, int, ll>> es;
    for (auto &e : g.edges) es.emplace_back(std::min(e.u, e.v), std::max(e.u, e.v), e.w);
    std::sort(es.begin(), es.end());
    uint64_t h = mix(g.n, (uint64_t) g.wshift * 7 + g.wmode);
    for (auto &t : es) { h = mix(h, std::get<0>(t)); h = mix(h, std::get<1>(t)); h = mix(h, (uint64_t) std::get<2>(t)); }
    return h;
}

// textual form used in replay files ("spec text"): header line, then one "u v units" line per edge
inline std::string spec_text(const GraphSpec &g) {
    std::ostringstream o;
    o << "graph n=" << g.n << " m=" << g.m() << " wshift=" << g.wshift << " wmode=" << g.wmode << " family="
      << (g.family.empty() ? "-" : g.family) << " tie=" << (g.tie_rich ? 1 : 0) << "\n";
    for (auto &e : g.edges) o << e.u << " " << e.v << " " << e.w << "\n";
    return o.str();
}
inline bool parse_spec(std::istream &in, GraphSpec &g) {
    std::string line;
    while (std::getline(in, line)) if (line.compare(0, 6, "graph ") == 0) break;
    if (line.compare(0, 6, "graph ") != 0) return false;
    int m = 0, tie = 0; char fam[256] = "-";
    if (sscanf(line.c_str(), "graph n=%d m=%d wshift=%d wmode=%d family=%255s tie=%d", &g.n, &m, &g.wshift, &g.wmode, fam, &tie) < 4) return false;
    g.family = fam; g.tie_rich = tie != 0; g.edges.clear();
    for (int i = 0; i < m; i++) { Ed e; if (!(in >> e.u >> e.v >> e.w)) return false; g.edges.push_back(e); }
    return true;
}
inline std::string spec_json(const GraphSpec &g, size_t max_edges = 400) {
    std::string es = "[";
    for (size_t i = 0; i < g.edges.size() && i < max_edges; i++) {
        if (i) es += ",";
        es += "[" + std::to_string(g.edges[i].u) + "," + std::to_string(g.edges[i].v) + "," + std::to_string(g.edges[i].w) + "]";
    }
    es += "]";
    return J().num("n", g.n).num("m", g.m()).num("wshift", g.wshift).num("wmode", g.wmode).str("family", g.family)
            .raw("edges_u_v_units", es).done();
}

// ------------------------------------------------------------------------------------------------
// union-find
// ------------------------------------------------------------------------------------------------
struct UF {
    std::vector<int> p;
    explicit UF(int n) : p(n) { std::iota(p.begin(), p.end(), 0); }
    int find(int x) { while (p[x] != x) { p[x] = p[p[x]]; x = p[x]; } return x; }
    bool unite(int a, int b) { a = find(a); b = find(b); if (a == b) return false; p[a] = b; return true; }
};
inline int components(const GraphSpec &g) {
    UF uf(g.n); int c = g.n;
    for (auto &e : g.edges) if (uf.unite(e.u, e.v)) c--;
    return c;
}
inline int cycle_space_dim(const GraphSpec &g) { return g.m() - g.n + components(g); }

// ------------------------------------------------------------------------------------------------
// Oracle 1: Horton candidate family + GF(2) Gaussian elimination (independent of parmcb)
// ------------------------------------------------------------------------------------------------
struct OracleResult {
    int dim = 0;
    ll opt = 0;                 // in units
    std::vector<ll> weights;    // sorted weights of a minimum basis (units)
    bool ok = true;
};
typedef std::vector<uint64_t> Bits;
inline void bxor(Bits &a, const Bits &b) { for (size_t i = 0; i < a.size(); i++) a[i] ^= b[i]; }
inline bool bget(const Bits &a, int i) { return (a[i >> 6] >> (i & 63)) & 1; }
inline void bflip(Bits &a, int i) { a[i >> 6] ^= (1ULL << (i & 63)); }
inline int blow(const Bits &a) { for (size_t i = 0; i < a.size(); i++) if (a[i]) return (int) (i * 64 + __builtin_ctzll(a[i])); return -1; }

// incremental GF(2) basis (reduced by pivot)
struct GF2Basis {
    std::vector<Bits> rows; std::vector<int> piv;
    // returns true if v is independent of the current rows (and adds it)
    bool add(Bits v) {
        for (size_t b = 0; b < rows.size(); b++) if (bget(v, piv[b])) bxor(v, rows[b]);
        int p = blow(v);
        if (p < 0) return false;
        rows.push_back(v); piv.push_back(p);
        return true;
    }
    size_t rank() const { return rows.size(); }
};

inline OracleResult horton_oracle(const GraphSpec &g) {
    OracleResult R;
    int n = g.n, m = g.m();
    R.dim = cycle_space_dim(g);
    if (R.dim == 0) return R;
    std::vector<std::vector<std::pair<int, int>>> adj(n);
    for (int i = 0; i < m; i++) { adj[g.edges[i].u].push_back({g.edges[i].v, i}); adj[g.edges[i].v].push_back({g.edges[i].u, i}); }
    size_t words = (m + 63) / 64;
    struct Cand { ll w; Bits inc; };
    std::vector<Cand> cands;
    for (int r = 0; r < n; r++) {
        std::vector<ll> d(n, -1); std::vector<int> pe(n, -1); std::vector<char> done(n, 0);
        typedef std::pair<ll, int> P;
        std::priority_queue<P, std::vector<P>, std::greater<P>> pq;
        d[r] = 0; pq.push({0, r});
        while (!pq.empty()) {
            auto t = pq.top(); pq.pop(); int x = t.second;
            if (done[x]) continue; done[x] = 1;
            for (auto &p : adj[x]) {
                ll nd = d[x] + g.edges[p.second].w;
                if (d[p.first] < 0 || nd < d[p.first]) { d[p.first] = nd; pe[p.first] = p.second; pq.push({nd, p.first}); }
            }
        }
        for (int i = 0; i < m; i++) {
            int x = g.edges[i].u, y = g.edges[i].v;
            if (d[x] < 0 || d[y] < 0) continue;
            if (pe[x] == i || pe[y] == i) continue;
            Bits inc(words, 0); bflip(inc, i);
            for (int a : {x, y}) {
                while (a != r) { int pi = pe[a]; bflip(inc, pi); a = (g.edges[pi].u == a) ? g.edges[pi].v : g.edges[pi].u; }
            }
            ll w = 0;
            for (int j = 0; j < m; j++) if (bget(inc, j)) w += g.edges[j].w;
            cands.push_back({w, inc});
        }
    }
    std::stable_sort(cands.begin(), cands.end(), [](const Cand &a, const Cand &b) { return a.w < b.w; });
    GF2Basis B;
    for (auto &c : cands) {
        if (B.add(c.inc)) { R.opt += c.w; R.weights.push_back(c.w); if ((int) B.rank() == R.dim) break; }
    }
    if ((int) B.rank() != R.dim) R.ok = false;
    return R;
}

// Oracle 2: brute force over ALL simple cycles (n small), greedy with GF(2) independence
inline OracleResult brute_oracle(const GraphSpec &g) {
    OracleResult R;
    int n = g.n, m = g.m();
    R.dim = cycle_space_dim(g);
    if (R.dim == 0) return R;
    std::vector<std::vector<std::pair<int, int>>> adj(n);
    for (int i = 0; i < m; i++) { adj[g.edges[i].u].push_back({g.edges[i].v, i}); adj[g.edges[i].v].push_back({g.edges[i].u, i}); }
    size_t words = (m + 63) / 64;
    struct Cand { ll w; Bits inc; };
    std::vector<Cand> cands;
    // enumerate simple cycles whose smallest vertex is s, each once (orientation fixed by second < last)
    std::vector<int> path_v, path_e; std::vector<char> on(n, 0);
    std::function<void(int, int)> dfs = [&](int s, int x) {
        for (auto &p : adj[x]) {
            int y = p.first, ei = p.second;
            if (y == s && path_e.size() >= 2) {
                if (path_v[1] < x) {
                    Bits inc(words, 0); ll w = g.edges[ei].w; bflip(inc, ei);
                    for (int pe : path_e) { bflip(inc, pe); w += g.edges[pe].w; }
                    cands.push_back({w, inc});
                }
            } else if (y > s && !on[y]) {
                on[y] = 1; path_v.push_back(y); path_e.push_back(ei);
                dfs(s, y);
                on[y] = 0; path_v.pop_back(); path_e.pop_back();
            }
        }
    };
    for (int s = 0; s < n; s++) { on[s] = 1; path_v = {s}; path_e.clear(); dfs(s, s); on[s] = 0; }
    std::stable_sort(cands.begin(), cands.end(), [](const Cand &a, const Cand &b) { return a.w < b.w; });
    GF2Basis B;
    for (auto &c : cands) if (B.add(c.inc)) { R.opt += c.w; R.weights.push_back(c.w); if ((int) B.rank() == R.dim) break; }
    if ((int) B.rank() != R.dim) R.ok = false;
    return R;
}

// exact single-source distances on the spec (-1 = unreachable)
inline std::vector<ll> exact_dijkstra(const GraphSpec &g, int src) {
    int n = g.n;
    std::vector<std::vector<std::pair<int, ll>>> adj(n);
    for (auto &e : g.edges) { adj[e.u].push_back({e.v, e.w}); adj[e.v].push_back({e.u, e.w}); }
    std::vector<ll> d(n, -1); std::vector<char> done(n, 0);
    typedef std::pair<ll, int> P;
    std::priority_queue<P, std::vector<P>, std::greater<P>> pq;
    d[src] = 0; pq.push({0, src});
    while (!pq.empty()) {
        auto t = pq.top(); pq.pop(); int x = t.second;
        if (done[x]) continue; done[x] = 1;
        for (auto &p : adj[x]) { ll nd = d[x] + p.second; if (d[p.first] < 0 || nd < d[p.first]) { d[p.first] = nd; pq.push({nd, p.first}); } }
    }
    return d;
}

// ------------------------------------------------------------------------------------------------
// Workload generators
// ------------------------------------------------------------------------------------------------
struct GenOpts {
    int max_n = 30;
    int min_n = 0;
    bool allow_degenerate = true;   // empty graph, single vertex, forests, edgeless
    bool decimal = false;           // C09: weights k/1000
    bool int_only = false;          // weights must be plain integers (wshift 0) - for int weight type
    double tie_bias = 0.5;          // probability of a tie-rich weight scheme
    int max_m = 100000;
    bool decorate = true;           // unions / isolated vertices / pendant trees / bridges
};

typedef std::vector<std::pair<int, int>> Topo;
inline void add_e(Topo &t, int a, int b) { if (a != b) t.push_back({std::min(a, b), std::max(a, b)}); }
inline void dedup(Topo &t) { std::sort(t.begin(), t.end()); t.erase(std::unique(t.begin(), t.end()), t.end()); }

inline int topo_er(Rng &r, Topo &t, int n, double p) {
    for (int i = 0; i < n; i++) for (int j = i + 1; j < n; j++) if (r.chance(p)) add_e(t, i, j);
    return n;
}
inline int topo_grid(Topo &t, int a, int b, bool torus) {
    for (int i = 0; i < a; i++) for (int j = 0; j < b; j++) {
        if (j + 1 < b) add_e(t, i * b + j, i * b + j + 1); else if (torus && b > 2) add_e(t, i * b + j, i * b);
        if (i + 1 < a) add_e(t, i * b + j, (i + 1) * b + j); else if (torus && a > 2) add_e(t, i * b + j, j);
    }
    return a * b;
}
inline int topo_hypercube(Topo &t, int d) {
    int n = 1 << d;
    for (int x = 0; x < n; x++) for (int b = 0; b < d; b++) if (!(x >> b & 1)) add_e(t, x, x | (1 << b));
    return n;
}
inline int topo_complete(Topo &t, int n) { for (int i = 0; i < n; i++) for (int j = i + 1; j < n; j++) add_e(t, i, j); return n; }
inline int topo_bipartite(Topo &t, int a, int b) { for (int i = 0; i < a; i++) for (int j = 0; j < b; j++) add_e(t, i, a + j); return a + b; }
inline int topo_wheel(Topo &t, int k) { for (int i = 0; i < k; i++) { add_e(t, i, (i + 1) % k); add_e(t, i, k); } return k + 1; }
inline int topo_ladder(Topo &t, int k, int kind) { // 0 ladder, 1 prism (circular ladder), 2 moebius
    for (int i = 0; i < k; i++) add_e(t, i, k + i);
    for (int i = 0; i + 1 < k; i++) { add_e(t, i, i + 1); add_e(t, k + i, k + i + 1); }
    if (kind == 1 && k > 2) { add_e(t, k - 1, 0); add_e(t, 2 * k - 1, k); }
    if (kind == 2 && k > 1) { add_e(t, k - 1, k); add_e(t, 2 * k - 1, 0); }
    return 2 * k;
}
inline int topo_petersen(Topo &t) {
    for (int i = 0; i < 5; i++) { add_e(t, i, (i + 1) % 5); add_e(t, i, 5 + i); add_e(t, 5 + i, 5 + (i + 2) % 5); }
    return 10;
}
inline int topo_theta(Rng &r, Topo &t, int paths, int maxlen, bool equal) {
    int n = 2; int len0 = (int) r.range(1, maxlen);
    bool direct_used = false;
    for (int p = 0; p < paths; p++) {
        int len = equal ? len0 : (int) r.range(1, maxlen);
        if (len == 1) { if (direct_used) len = 2; else direct_used = true; }
        int prev = 0;
        for (int i = 1; i < len; i++) { add_e(t, prev, n); prev = n++; }
        add_e(t, prev, 1);
    }
    return n;
}
inline int topo_cycle_chords(Rng &r, Topo &t, int n, int chords) {
    for (int i = 0; i < n; i++) add_e(t, i, (i + 1) % n);
    for (int c = 0; c < chords && n > 3; c++) { int a = (int) r.below(n), b = (int) r.below(n); if (a != b) add_e(t, a, b); }
    return n;
}
inline int topo_cactus(Rng &r, Topo &t, int blocks, int maxlen) {
    int n = 1;
    for (int b = 0; b < blocks; b++) {
        int at = (int) r.below(n); int len = (int) r.range(2, std::max(2, maxlen));
        if (len == 2) { add_e(t, at, n); n++; continue; } // a bridge
        int prev = at;
        for (int i = 1; i < len; i++) { add_e(t, prev, n); prev = n++; }
        add_e(t, prev, at);
    }
    return n;
}
inline int topo_tree(Rng &r, Topo &t, int n) { for (int i = 1; i < n; i++) add_e(t, (int) r.below(i), i); return n; }
inline int topo_caterpillar_cycles(Rng &r, Topo &t, int spine) {
    // a path with pendant leaves, some of which close short cycles: many degree<=1 clean-up rounds
    int n = spine;
    for (int i = 0; i + 1 < spine; i++) add_e(t, i, i + 1);
    for (int i = 0; i < spine; i++) {
        int leaves = (int) r.below(3);
        for (int l = 0; l < leaves; l++) { add_e(t, i, n); if (r.chance(0.3) && i + 1 < spine) add_e(t, n, i + 1); n++; }
    }
    return n;
}

// weight schemes; returns wshift (0 for integers) and fills w; sets tie flag
inline void assign_weights(Rng &r, GraphSpec &g, const GenOpts &o, bool regular_topo) {
    int m = g.m();
    g.wshift = 0; g.wmode = 0;
    if (o.decimal) {
        g.wmode = 1;
        int scheme = (int) r.below(5);
        static const ll small[] = {100, 200, 300, 700};
        for (auto &e : g.edges) {
            if (scheme <= 1) e.w = small[r.below(4)];                          // {0.1,0.2,0.3,0.7}
            else if (scheme == 2) e.w = (ll) r.range(1, 30) * 100;                // one decimal
            else if (scheme == 3) e.w = (ll) r.range(1, 1000000);                 // arbitrary k/1000
            else e.w = (ll) r.range(1, 2000);                                     // small thousandths
        }
        g.tie_rich = scheme <= 1;
        return;
    }
    bool tie = r.chance(o.tie_bias);
    int scheme;
    if (tie) scheme = (int) r.below(3);               // 0 unit, 1 {1,2}, 2 {1,2,3}
    else scheme = 3 + (int) r.below(o.int_only ? 3 : 5); // 3 small<=20, 4 <=10^4, 5 powers of two, 6 dyadic, 7 dyadic small set
    if (!tie && r.chance(0.06)) scheme = 8;           // 8 large magnitudes (still exactly summable): narrowing to int / float shows
    for (auto &e : g.edges) {
        switch (scheme) {
        case 0: e.w = 1; break;
        case 1: e.w = r.range(1, 2); break;
        case 2: e.w = r.range(1, 3); break;
        case 3: e.w = r.range(1, 20); break;
        case 4: e.w = r.range(1, 10000); break;
        case 5: e.w = 1LL << r.below(11); break;
        case 6: e.w = r.range(1, 4096); break;
        case 8: e.w = o.int_only ? r.range(100000, 400000) : r.range(1LL << 33, 1LL << 40); break;
        default: e.w = r.range(1, 6); break;
        }
    }
    if (scheme == 6) g.wshift = (int) r.range(1, 10);
    if (scheme == 7) g.wshift = (int) r.range(1, 3);
    g.tie_rich = tie || scheme == 7 || (regular_topo && scheme == 0);
    (void) m;
}

struct Piece { Topo t; int n; std::string name; bool regular; };

inline Piece gen_piece(Rng &r, int max_n, bool allow_degenerate) {
    Piece P; P.n = 0; P.regular = false;
    max_n = std::max(max_n, 1);
    int fam = (int) r.below(allow_degenerate ? 17 : 14);
    auto cap = [&](int x) { return std::max(1, std::min(x, max_n)); };
    switch (fam) {
    case 0: case 1: { // Erdos-Renyi, many densities
        int n = (int) r.range(2, cap(max_n)); static const double ps[] = {0.05, 0.1, 0.15, 0.2, 0.3, 0.4, 0.5, 0.7, 0.85, 1.0};
        double p = ps[r.below(10)]; if (n > 40) p = std::min(p, 8.0 / n + 0.02);
        P.n = topo_er(r, P.t, n, p); P.name = "er"; break; }
    case 2: { int a = (int) r.range(2, 7), b = (int) r.range(2, 7); while (a * b > max_n && (a > 2 || b > 2)) { if (a >= b) a--; else b--; }
        if (a * b > max_n) { a = 1; b = cap(2); }
        bool torus = r.chance(0.3); P.n = topo_grid(P.t, a, b, torus); P.name = torus ? "torus" : "grid"; P.regular = true; break; }
    case 3: { int d = (int) r.range(2, 5); while ((1 << d) > max_n && d > 1) d--; P.n = topo_hypercube(P.t, d); P.name = "hypercube"; P.regular = true; break; }
    case 4: { int n = (int) r.range(3, cap(std::min(max_n, 12))); P.n = topo_complete(P.t, n); P.name = "complete"; P.regular = true; break; }
    case 5: { int a = (int) r.range(2, 7), b = (int) r.range(2, 7); while (a + b > max_n && (a > 1 || b > 1)) { if (a >= b) a--; else b--; }
        P.n = topo_bipartite(P.t, a, b); P.name = "bipartite"; P.regular = true; break; }
    case 6: { int k = (int) r.range(3, cap(std::min(max_n - 1, 14))); if (k < 3) k = 3; P.n = topo_wheel(P.t, k); P.name = "wheel"; P.regular = true; break; }
    case 7: { int k = (int) r.range(2, std::max(2, std::min(max_n / 2, 10))); int kind = (int) r.below(3); P.n = topo_ladder(P.t, k, kind);
        P.name = kind == 0 ? "ladder" : kind == 1 ? "prism" : "moebius"; P.regular = true; break; }
    case 8: { P.n = topo_petersen(P.t); P.name = "petersen"; P.regular = true; break; }
    case 9: { int paths = (int) r.range(2, 5); int maxlen = (int) r.range(2, 5); bool eq = r.chance(0.6);
        P.n = topo_theta(r, P.t, paths, maxlen, eq); P.name = eq ? "theta_eq" : "theta"; P.regular = eq; break; }
    case 10: { int n = (int) r.range(3, cap(std::min(max_n, 24))); if (n < 3) n = 3; P.n = topo_cycle_chords(r, P.t, n, (int) r.below(5)); P.name = "cycle_chords"; break; }
    case 11: { P.n = topo_cactus(r, P.t, (int) r.range(1, 6), 6); P.name = "cactus"; break; }
    case 12: { P.n = topo_caterpillar_cycles(r, P.t, (int) r.range(2, std::max(2, std::min(max_n / 2, 10)))); P.name = "caterpillar"; break; }
    case 13: { int n = (int) r.range(4, cap(std::min(max_n, 20))); if (n < 4) n = 4; // sparse: tree + few extra edges (small |S_k|)
        P.n = topo_tree(r, P.t, n); int extra = (int) r.range(1, 4); for (int i = 0; i < extra; i++) add_e(P.t, (int) r.below(n), (int) r.below(n)); P.name = "sparse"; break; }
    case 14: { P.n = topo_tree(r, P.t, (int) r.range(1, cap(std::min(max_n, 15)))); P.name = "tree"; break; }
    case 15: { P.n = (int) r.range(0, 4); P.name = P.n == 0 ? "empty" : "edgeless"; break; }
    default: { P.n = 1; P.name = "single"; break; }
    }
    dedup(P.t);
    return P;
}

inline GraphSpec gen_graph(Rng &r, const GenOpts &o) {
    GraphSpec g;
    Topo all; int n = 0; std::string fam; bool regular = true;
    int pieces = 1;
    if (o.decorate && r.chance(0.25)) pieces = (int) r.range(2, 3);
    for (int p = 0; p < pieces; p++) {
        int budget = std::max(1, (o.max_n - n) / (pieces - p));
        Piece P = gen_piece(r, budget, o.allow_degenerate && (pieces > 1 || r.chance(0.5)));
        for (auto &e : P.t) all.push_back({e.first + n, e.second + n});
        n += P.n; fam += (p ? "+" : "") + P.name; regular = regular && P.regular;
    }
    if (o.decorate && n > 0) {
        if (r.chance(0.15)) { int k = (int) r.range(1, 3); n += k; fam += "+iso"; }                      // isolated vertices
        if (r.chance(0.2)) { int k = (int) r.range(1, 4); for (int i = 0; i < k; i++) { all.push_back({(int) r.below(n), n}); n++; } fam += "+pend"; regular = false; }
        if (r.chance(0.15) && pieces > 1) { // bridge between two random vertices in different components (or any two)
            GraphSpec tmp; tmp.n = n; for (auto &e : all) tmp.edges.push_back({e.first, e.second, 1});
            UF uf(n); for (auto &e : all) uf.unite(e.first, e.second);
            for (int tries = 0; tries < 10; tries++) { int a = (int) r.below(n), b = (int) r.below(n); if (uf.find(a) != uf.find(b)) { all.push_back({std::min(a, b), std::max(a, b)}); fam += "+bridge"; regular = false; break; } }
        }
    }
    if (n < o.min_n) { n = o.min_n; }
    dedup(all);
    if ((int) all.size() > o.max_m) { r.shuffle(all); all.resize(o.max_m); }
    // random vertex renumbering and edge insertion order / orientation
    std::vector<int> perm(n); std::iota(perm.begin(), perm.end(), 0); r.shuffle(perm);
    g.n = n;
    for (auto &e : all) { int a = perm[e.first], b = perm[e.second]; if (r.chance(0.5)) std::swap(a, b); g.edges.push_back({a, b, 1}); }
    r.shuffle(g.edges);
    g.family = fam;
    assign_weights(r, g, o, regular);
    return g;
}


// graphs beyond the usual size bound with pairwise DISTINCT edge weights 1..m (path sums still tie): size / "no ties" shortcuts
inline GraphSpec gen_large_distinct(Rng &r, int lo = 65, int hi = 110) {
    GraphSpec g; int n = (int) r.range(lo, hi); Topo t;
    int kind = (int) r.below(3);
    if (kind == 0) { for (int i = 0; i < n; i++) add_e(t, i, (i + 1) % n); int ch = (int) r.range(3, 25); for (int c = 0; c < ch; c++) add_e(t, (int) r.below(n), (int) r.below(n)); }
    else if (kind == 1) { topo_tree(r, t, n); int ex = (int) r.range(5, 40); for (int c = 0; c < ex; c++) add_e(t, (int) r.below(n), (int) r.below(n)); }
    else { int a = (int) r.range(4, 9); int b = n / a; n = topo_grid(t, a, b, false); }
    dedup(t);
    std::vector<int> perm(n); std::iota(perm.begin(), perm.end(), 0); r.shuffle(perm);
    std::vector<ll> ws(t.size()); std::iota(ws.begin(), ws.end(), 1); r.shuffle(ws);
    g.n = n; size_t k = 0; for (auto &e : t) { int a_ = perm[e.first], b_ = perm[e.second]; if (r.chance(0.5)) std::swap(a_, b_); g.edges.push_back({a_, b_, ws[k++]}); }
    r.shuffle(g.edges); g.family = "large_distinct_weights"; g.tie_rich = false;
    return g;
}

// medium-size random graphs (40-70 vertices, average degree 5-10, cycle-space dimension 60-250) under the ordinary weight schemes:
// still cheap for the Horton + Gauss oracle, with many phases whose support has 4 <= |S| < n signed edges - slips in the
// hidden-edge bookkeeping of the signed variant that 6-12 vertex graphs show once in 10^4 show here once in ~50
inline GraphSpec gen_wide_mid(Rng &r, bool int_only = false, int lo = 40, int hi = 70) {
    GraphSpec g; int n = (int) r.range(lo, hi); Topo t;
    double deg = 5 + r.real() * 5; topo_er(r, t, n, std::min(1.0, deg / n)); dedup(t);
    g.n = n; for (auto &e : t) g.edges.push_back({e.first, e.second, 1});
    r.shuffle(g.edges);
    GenOpts o; o.tie_bias = 0.45; o.int_only = int_only; assign_weights(r, g, o, false);
    g.family = "er_dense_mid_size";
    return g;
}


// every property about graphs quantifies over SIMPLE graphs with positive weights: a generator that leaves that domain is a
// harness failure (exit 2), never a verdict about parmcb
inline void require_in_domain(const GraphSpec &g, const char *where) {
    std::set<std::pair<int, int>> seen;
    for (auto &e : g.edges) {
        bool bad = e.u == e.v || e.u < 0 || e.v < 0 || e.u >= g.n || e.v >= g.n || e.w <= 0 || !seen.insert({std::min(e.u, e.v), std::max(e.u, e.v)}).second;
        if (bad) { printf("X {\"msg\":\"generator left the domain (self-loop / parallel edge / bad endpoint / non-positive weight) in %s, family %s\"}\n", where, g.family.c_str()); fflush(stdout); exit(2); }
    }
}

// ------------------------------------------------------------------------------------------------
// Building a boost graph from a spec
// ------------------------------------------------------------------------------------------------
template<class W>
struct BG {
    typedef boost::adjacency_list<boost::vecS, boost::vecS, boost::undirectedS, boost::no_property,
            boost::property<boost::edge_weight_t, W>> Graph;
    typedef typename boost::graph_traits<Graph>::edge_descriptor Edge;
    typedef typename boost::property_map<Graph, boost::edge_weight_t>::type WMap;
};
template<class W> inline W to_weight(const GraphSpec &s, ll units);
template<> inline double to_weight<double>(const GraphSpec &s, ll units) { return s.weight_of(units); }
template<> inline int to_weight<int>(const GraphSpec &s, ll units) { return (int) units; }

template<class W, class GraphT>
inline void build_graph_any(const GraphSpec &s, GraphT &g) {
    require_in_domain(s, "build_graph_any");
    g = GraphT(s.n);
    auto w = boost::get(boost::edge_weight, g);
    for (auto &e : s.edges) { auto x = boost::add_edge(e.u, e.v, g).first; w[x] = to_weight<W>(s, e.w); }
}
// a legal but unusual graph type: another interior edge property is listed BEFORE edge_weight
typedef boost::adjacency_list<boost::vecS, boost::vecS, boost::undirectedS, boost::no_property,
        boost::property<boost::edge_index_t, std::size_t, boost::property<boost::edge_weight_t, double>>> GraphIdxFirst;

template<class W>
inline void build_graph(const GraphSpec &s, typename BG<W>::Graph &g) {
    typedef typename BG<W>::Graph G;
    require_in_domain(s, "build_graph");
    g = G(s.n);
    auto w = boost::get(boost::edge_weight, g);
    for (auto &e : s.edges) { auto x = boost::add_edge(e.u, e.v, g).first; w[x] = to_weight<W>(s, e.w); }
}

// ------------------------------------------------------------------------------------------------
// Cycle-basis validity monitor.  Runs AFTER the call has returned.  Nothing is read through a
// descriptor before its property pointer was shown to be the caller's graph's own.
// ------------------------------------------------------------------------------------------------
struct BasisReport {
    std::string error;            // empty = valid
    std::string kind;             // short key of the failure
    std::vector<ll> weights;      // per emitted cycle, in units (from the SPEC, i.e. the caller's truth)
    ll total = 0;
    size_t count = 0;
};

template<class W, class GraphT = typename BG<W>::Graph>
struct EdgeIndex {
    typedef GraphT G;
    typedef typename boost::graph_traits<GraphT>::edge_descriptor Edge;
    std::map<std::pair<int, int>, std::pair<int, const void*>> by_pair; // (min,max) -> (spec index, property pointer)
    EdgeIndex(const GraphSpec &s, const G &g) {
        std::map<std::pair<int, int>, int> spec_idx;
        for (size_t i = 0; i < s.edges.size(); i++) spec_idx[{std::min(s.edges[i].u, s.edges[i].v), std::max(s.edges[i].u, s.edges[i].v)}] = (int) i;
        for (auto e : boost::make_iterator_range(boost::edges(g))) {
            int u = (int) boost::source(e, g), v = (int) boost::target(e, g);
            std::pair<int, int> key{std::min(u, v), std::max(u, v)};
            auto it = spec_idx.find(key);
            if (it != spec_idx.end()) by_pair[key] = {it->second, (const void*) e.get_property()};
        }
    }
    // returns spec edge index or -1 (not an edge) / -2 (foreign property pointer) / -3 (endpoint out of range)
    int lookup(const Edge &e, int n) const {
        size_t u = e.m_source, v = e.m_target;
        if (u >= (size_t) n || v >= (size_t) n) return -3;
        auto it = by_pair.find({(int) std::min(u, v), (int) std::max(u, v)});
        if (it == by_pair.end()) return -1;
        if (it->second.second != (const void*) e.get_property()) return -2;
        return it->second.first;
    }
};

template<class W, class CycleList>
inline BasisReport check_basis(const GraphSpec &s, const typename BG<W>::Graph &g, const CycleList &cycles) {
    BasisReport R;
    EdgeIndex<W> idx(s, g);
    int n = s.n, m = s.m();
    int dim = cycle_space_dim(s);
    R.count = cycles.size();
    size_t words = (m + 63) / 64;
    GF2Basis B;
    size_t ci = 0;
    auto fail = [&](const std::string &kind, const std::string &msg) { if (R.error.empty()) { R.kind = kind; R.error = msg; } };
    for (const auto &cyc : cycles) {
        if (cyc.empty()) { fail("empty_cycle", "cycle #" + std::to_string(ci) + " is empty"); ci++; R.weights.push_back(0); continue; }
        Bits inc(words ? words : 1, 0);
        std::map<int, int> deg; std::vector<std::pair<int, int>> ces;
        ll w = 0; bool bad = false;
        for (const auto &e : cyc) {
            int ei = idx.lookup(e, n);
            if (ei == -3) { fail("endpoint_out_of_range", "cycle #" + std::to_string(ci) + " has a descriptor with an endpoint out of range"); bad = true; break; }
            if (ei == -1) { fail("not_an_edge", "cycle #" + std::to_string(ci) + " names (" + std::to_string(e.m_source) + "," + std::to_string(e.m_target) + ") which is not an edge of the caller's graph"); bad = true; break; }
            if (ei == -2) { fail("foreign_descriptor", "cycle #" + std::to_string(ci) + " holds a descriptor for (" + std::to_string(e.m_source) + "," + std::to_string(e.m_target) + ") whose property pointer does not belong to the caller's graph"); bad = true; break; }
            if (bget(inc, ei)) { fail("repeated_edge", "cycle #" + std::to_string(ci) + " repeats edge index " + std::to_string(ei)); bad = true; break; }
            bflip(inc, ei); w += s.edges[ei].w;
            deg[s.edges[ei].u]++; deg[s.edges[ei].v]++; ces.push_back({s.edges[ei].u, s.edges[ei].v});
        }
        R.weights.push_back(bad ? 0 : w);
        if (!bad) {
            for (auto &d : deg) if (d.second != 2) { fail("not_simple_cycle", "cycle #" + std::to_string(ci) + ": vertex " + std::to_string(d.first) + " has degree " + std::to_string(d.second)); bad = true; break; }
        }
        if (!bad) { // connected => one simple cycle
            std::map<int, int> id; for (auto &d : deg) { int k = (int) id.size(); id[d.first] = k; }
            UF uf((int) id.size()); int comps = (int) id.size();
            for (auto &p : ces) if (uf.unite(id[p.first], id[p.second])) comps--;
            if (comps != 1) { fail("not_simple_cycle", "cycle #" + std::to_string(ci) + " is a union of " + std::to_string(comps) + " disjoint cycles"); bad = true; }
        }
        if (!bad) { if (!B.add(inc)) fail("dependent", "cycle #" + std::to_string(ci) + " is GF(2)-dependent on the earlier ones"); }
        ci++;
    }
    for (ll w : R.weights) R.total += w;
    if ((int) cycles.size() != dim) fail("wrong_count", "emitted " + std::to_string(cycles.size()) + " cycles, cycle space dimension is " + std::to_string(dim));
    if (R.error.empty() && (int) B.rank() != dim) fail("rank", "GF(2) rank " + std::to_string(B.rank()) + " != dimension " + std::to_string(dim));
    return R;
}


// ------------------------------------------------------------------------------------------------
// A POSITIONAL output iterator (like an iterator into a pre-sized vector, unlike a back_inserter): copies keep their own
// position, so an algorithm that emits in several phases must carry its advanced iterator along.  Writes are bounds-checked
// and counted per slot instead of being undefined behaviour.
// ------------------------------------------------------------------------------------------------
template<class Cycle>
struct SlotSink {
    std::vector<Cycle> slots; std::vector<int> writes; long overflow = 0;
    explicit SlotSink(size_t capacity) : slots(capacity), writes(capacity, 0) {}
    struct It {
        SlotSink *s; size_t pos;
        typedef std::output_iterator_tag iterator_category; typedef void value_type; typedef void difference_type; typedef void pointer; typedef void reference;
        It& operator*() { return *this; } It& operator++() { ++pos; return *this; } It operator++(int) { It t = *this; ++pos; return t; }
        It& operator=(const Cycle &c) { if (pos < s->slots.size()) { s->slots[pos] = c; s->writes[pos]++; } else s->overflow++; return *this; }
    };
    It begin() { return It{this, 0}; }
    // the cycles as the caller of a positional iterator sees them: slots 0..expected-1; returns a description of misuse or ""
    std::string collect(size_t expected, std::list<Cycle> &out) const {
        std::string err;
        if (overflow) err = std::to_string(overflow) + " cycle(s) written beyond the " + std::to_string(slots.size()) + " slots handed out";
        for (size_t i = 0; i < slots.size(); i++) {
            if (i < expected) { out.push_back(slots[i]); if (writes[i] != 1 && err.empty()) err = "output position " + std::to_string(i) + " was written " + std::to_string(writes[i]) + " times (each position must be written exactly once)"; }
            else if (writes[i] != 0 && err.empty()) err = "output position " + std::to_string(i) + " beyond the m-n+c expected cycles was written";
        }
        return err;
    }
};

// ------------------------------------------------------------------------------------------------
// protocol helpers (stdout, line oriented):  B <idx> / E <idx> <json> / S <json> / X <json>
// ------------------------------------------------------------------------------------------------
struct CaseOut {
    uint64_t idx;
    uint64_t hash = 0;
    bool nontrivial = false;
    std::vector<std::string> tags;
    std::vector<std::string> viols;   // json objects
    std::string sample;               // json object or empty
    std::string extra;                // extra json members (",k:v" form built via J then stripped)
    explicit CaseOut(uint64_t i) : idx(i) { printf("B %llu\n", (unsigned long long) i); fflush(stdout); }
    void tag(const std::string &t) { tags.push_back(t); }
    void viol(const std::string &key, const std::string &detail, const std::string &case_json, const std::string &spec_txt, const std::string &observed = "{}") {
        viols.push_back(J().str("key", key).str("detail", detail).raw("case", case_json).str("spec_text", spec_txt).raw("observed", observed).done());
    }
    void end() {
        char hb[32]; snprintf(hb, sizeof hb, "%016llx", (unsigned long long) hash);
        J j; j.str("h", hb).num("nt", nontrivial ? 1 : 0).raw("tags", jarr(tags, true));
        if (!viols.empty()) j.raw("viol", jarr(viols, false));
        if (!sample.empty()) j.raw("sample", sample);
        printf("E %llu %s\n", (unsigned long long) idx, j.done().c_str());
        fflush(stdout);
    }
};
inline void emit_summary(const std::string &json) { printf("S %s\n", json.c_str()); fflush(stdout); }
inline void emit_harness_failure(const std::string &msg) { printf("X %s\n", J().str("msg", msg).done().c_str()); fflush(stdout); }

// command line:  --mode M --seed S --from A --to B [--replay FILE] [--opt k=v ...]
struct Args {
    std::string mode; uint64_t seed = 1; uint64_t from = 0, to = 0; std::string replay; std::map<std::string, std::string> opt;
    int samples = 3;
    Args(int argc, char **argv) {
        for (int i = 1; i < argc; i++) {
            std::string a = argv[i];
            auto nxt = [&]() { return std::string(i + 1 < argc ? argv[++i] : ""); };
            if (a == "--mode") mode = nxt();
            else if (a == "--seed") seed = strtoull(nxt().c_str(), 0, 10);
            else if (a == "--from") from = strtoull(nxt().c_str(), 0, 10);
            else if (a == "--to") to = strtoull(nxt().c_str(), 0, 10);
            else if (a == "--replay") replay = nxt();
            else if (a == "--samples") samples = atoi(nxt().c_str());
            else if (a == "--opt") { std::string kv = nxt(); auto p = kv.find('='); if (p != std::string::npos) opt[kv.substr(0, p)] = kv.substr(p + 1); }
        }
    }
    ll geti(const std::string &k, ll d) const { auto it = opt.find(k); return it == opt.end() ? d : atoll(it->second.c_str()); }
    std::string gets(const std::string &k, const std::string &d) const { auto it = opt.find(k); return it == opt.end() ? d : it->second; }
};

// Oracle self-validation: Horton vs brute force on small graphs; returns number compared, or -1 on disagreement
inline long oracle_selfcheck(uint64_t seed, int count, std::string &why) {
    long done = 0;
    for (int i = 0; i < count; i++) {
        Rng r(case_seed(seed, "oracle-selfcheck", i));
        GenOpts o; o.max_n = 7; o.tie_bias = 0.6;
        GraphSpec g = gen_graph(r, o);
        if (g.n > 8 || g.m() > 22) continue;
        OracleResult a = horton_oracle(g), b = brute_oracle(g);
        if (!a.ok || !b.ok || a.dim != b.dim || a.opt != b.opt || a.weights != b.weights) {
            why = "Horton oracle and brute-force oracle disagree on " + spec_json(g) + " horton=" + std::to_string(a.opt) + " brute=" + std::to_string(b.opt);
            return -1;
        }
        done++;
    }
    return done;
}

} // namespace vf
