// Monitor for C10: read_dimacs_from_file against the generator's own record of what it wrote, and the
// three input validators against their definitions.
#include <cstring>
#include <system_error>
#include "common/vcommon.hpp"
#include <parmcb/config.hpp>
#include <parmcb/util.hpp>

using namespace vf;
typedef BG<double>::Graph G;

struct FileEdge { long u, v; bool has_w; std::string wtok; double w; };
struct DimacsDoc { std::string text; long n = 0; std::vector<FileEdge> edges; bool must_throw = false; bool trailing_newline = true; std::string last_kind; std::vector<std::string> features; };

static std::string weight_token(Rng &r, double &val, bool allow_nonpos) {
    char b[64]; int k = (int) r.below(6);
    if (r.chance(0.04)) { // decimals far below 1: still positive, however small
        static const char *tiny[] = {"0.000000000000000154", "0.0000000000000000000000001", "0.00000000001", "0.000000000000000222", "0.0000001", "0.00000000000000000000000000000000000000000000000003"};
        std::string t = tiny[r.below(6)]; if (allow_nonpos && r.chance(0.15)) t = r.chance(0.5) ? "0.000000000000000000" : "-" + t; val = strtod(t.c_str(), nullptr); return t; }
    if (k == 0) snprintf(b, sizeof b, "%lld", (long long) r.range(1, 9));
    else if (k == 1) snprintf(b, sizeof b, "%lld", (long long) r.range(10, 99999));
    else if (k == 2) snprintf(b, sizeof b, "%lld.%lld", (long long) r.range(0, 999), (long long) r.range(0, 999));
    else if (k == 3) snprintf(b, sizeof b, "0.%03lld", (long long) r.range(1, 999));
    else if (k == 4) snprintf(b, sizeof b, "%lld.5", (long long) r.range(0, 50));
    else snprintf(b, sizeof b, "%lld.%02lld", (long long) r.range(1, 1000), (long long) r.range(0, 99));
    std::string t = b;
    if (allow_nonpos && r.chance(0.15)) t = r.chance(0.5) ? "0" : "-" + t;
    val = strtod(t.c_str(), nullptr);
    return t;
}

static DimacsDoc gen_doc(Rng &r, int max_n, int max_m) {
    DimacsDoc d;
    d.n = r.range(0, max_n); if (r.chance(0.7)) d.n = std::max<long>(d.n, 2);
    bool big = r.chance(0.004); if (big) { d.n = r.range(65600, 70000); d.features.push_back("declares_more_than_65535_vertices"); }
    int m = d.n >= 1 ? (int) r.range(0, max_m) : 0;
    bool bad_vertex = d.n >= 1 && m > 0 && r.chance(0.08);
    std::vector<std::string> lines;
    auto comment = [&]() { std::string c = r.chance(0.5) ? "c" : "#"; int len = r.chance(0.1) ? (int) r.range(200, 1000) : (int) r.range(0, 40);
        static const char *texts[] = {" e 1 2 7", " p edge 9 9", " comment", " a 3 4", " weight 1.5", "", " #", " c"}; c += texts[r.below(8)]; if ((int) c.size() < len && c.size() == 1) c += ' '; while ((int) c.size() < len) c += (char) ('a' + r.below(26)); if (c.size() > 1000) c.resize(1000); return c; };
    int pre = (int) r.below(3); for (int i = 0; i < pre; i++) lines.push_back(comment());
    if (pre) d.features.push_back("comment_before_problem_line");
    { char b[128]; long decl_m = r.chance(0.85) ? m : (long) r.range(0, 50); snprintf(b, sizeof b, "p %s %ld %ld", r.chance(0.5) ? "edge" : (r.chance(0.5) ? "sp" : "col"), d.n, decl_m); lines.push_back(b); }
    int bad_at = bad_vertex ? (int) r.below(m) : -1;
    for (int i = 0; i < m; i++) {
        if (r.chance(0.15)) { lines.push_back(comment()); d.features.push_back("comment_between_edges"); }
        FileEdge e; e.u = r.range(1, d.n); e.v = r.range(1, d.n);
        if (big && r.chance(0.7)) { e.u = r.range(65530, d.n); if (r.chance(0.5)) e.v = r.range(65530, d.n); }   // d.n >= 65600 here
        if (i == bad_at) { if (r.chance(0.5)) e.u = r.chance(0.5) ? 0 : d.n + r.range(1, 3); else e.v = r.chance(0.5) ? 0 : d.n + r.range(1, 3); d.must_throw = true; d.features.push_back("undeclared_vertex"); }
        if (e.u < 1 || e.u > d.n || e.v < 1 || e.v > d.n) d.must_throw = true;   // the expectation follows the text that is written, whatever the generator intended
        e.has_w = r.chance(0.7); e.w = 1.0;
        if (e.has_w) e.wtok = weight_token(r, e.w, true);
        char b[256]; const char *sep = r.chance(0.1) ? "  " : " ";
        if (e.has_w) snprintf(b, sizeof b, "%c%s%ld%s%ld%s%s", r.chance(0.5) ? 'e' : 'a', sep, e.u, sep, e.v, sep, e.wtok.c_str());
        else snprintf(b, sizeof b, "%c%s%ld%s%ld", r.chance(0.5) ? 'e' : 'a', sep, e.u, sep, e.v);
        { std::string L = b; if (r.chance(0.02)) { size_t pad = (size_t) r.range(200, 900); size_t at = L.find(' '); L.insert(at, std::string(pad, ' ')); d.features.push_back("edge_line_longer_than_200_bytes"); } lines.push_back(L); }
        if (d.must_throw && i == bad_at) { /* edges after the bad one are never compared */ }
        d.edges.push_back(e);
    }
    if (r.chance(0.25)) { lines.push_back(comment()); d.features.push_back("final_line_comment"); d.last_kind = "comment"; }
    else if (m == 0) d.last_kind = "problem_line";
    else d.last_kind = d.edges.back().has_w ? "edge_with_weight" : "edge_without_weight";
    d.trailing_newline = r.chance(0.5);
    for (size_t i = 0; i < lines.size(); i++) { d.text += lines[i]; if (i + 1 < lines.size() || d.trailing_newline) d.text += "\n"; }
    d.features.push_back(d.trailing_newline ? "trailing_newline" : "no_trailing_newline");
    d.features.push_back("last:" + d.last_kind);
    return d;
}

static void check_doc(CaseOut &co, const DimacsDoc &d) {
    std::string cj = J().str("component", "read_dimacs_from_file").str("text", d.text.size() > 1500 ? d.text.substr(0, 1500) + "..." : d.text).num("declared_vertices", d.n).num("edge_lines", (ll) d.edges.size())
            .boolean("trailing_newline", d.trailing_newline).str("last_line", d.last_kind).done();
    G g; bool threw = false; std::string what;
    FILE *fp = fmemopen((void*) d.text.data(), d.text.size(), "r");
    if (!fp) { emit_harness_failure("fmemopen failed"); exit(2); }
    try { parmcb::read_dimacs_from_file(fp, g); } catch (std::exception &e) { threw = true; what = e.what(); } catch (...) { threw = true; what = "unknown"; }
    fclose(fp);
    std::string tag = d.trailing_newline ? "" : "(no_trailing_newline)";
    if (d.must_throw) { if (!threw) co.viol("dimacs:undeclared_vertex_accepted", "an edge names an undeclared vertex but no error was raised", cj, d.text); return; }
    if (threw) { co.viol("dimacs:unexpected_error" + tag, "valid text raised: " + what, cj, d.text); return; }
    if ((long) boost::num_vertices(g) != d.n) { co.viol("dimacs:vertex_count", "graph has " + std::to_string(boost::num_vertices(g)) + " vertices, problem line declares " + std::to_string(d.n), cj, d.text); return; }
    if (boost::num_edges(g) != d.edges.size()) { co.viol("dimacs:edge_count" + tag, "graph has " + std::to_string(boost::num_edges(g)) + " edges, the text has " + std::to_string(d.edges.size()) + " edge lines", cj, d.text); return; }
    auto w = boost::get(boost::edge_weight, g); size_t i = 0;
    for (auto e : boost::make_iterator_range(boost::edges(g))) {
        const FileEdge &f = d.edges[i];
        long a = (long) boost::source(e, g), b = (long) boost::target(e, g);
        bool last = i + 1 == d.edges.size();
        std::string t2 = (last && !d.trailing_newline && d.last_kind != "comment") ? "(no_trailing_newline)" : "";
        if (std::minmax(a, b) != std::minmax(f.u - 1, f.v - 1)) { co.viol("dimacs:endpoints" + t2, "edge #" + std::to_string(i) + " joins (" + std::to_string(a) + "," + std::to_string(b) + ") 0-based, the line names " + std::to_string(f.u) + " " + std::to_string(f.v) + " 1-based", cj, d.text); return; }
        double got = w[e];
        if (got != f.w) { co.viol("dimacs:weight" + t2, "edge #" + std::to_string(i) + " has weight " + std::to_string(got) + ", the line says " + (f.has_w ? f.wtok : std::string("nothing (default 1)")), cj, d.text); return; }
        i++;
    }
    // the three predicates on the graph the reader produced, against the text
    { bool loops = false, multi = false, nonpos = false; std::set<std::pair<long, long>> seen;
      for (auto &f : d.edges) { if (f.u == f.v) loops = true; if (!seen.insert(std::minmax(f.u, f.v)).second) multi = true; if (f.w <= 0) nonpos = true; }
      bool gl = parmcb::has_loops(g), gn = parmcb::has_non_positive_weights(g, w);
      if (gl != loops) co.viol("validators:has_loops", std::string("on the graph read from the text has_loops returned ") + (gl ? "true" : "false") + ", the text " + (loops ? "has" : "has no") + " self-loop", cj, d.text);
      if (gn != nonpos) co.viol("validators:has_non_positive_weights", std::string("on the graph read from the text has_non_positive_weights returned ") + (gn ? "true" : "false") + ", truth is " + (nonpos ? "true" : "false"), cj, d.text);
      if (!loops) { bool gm = parmcb::has_multiple_edges(g); if (gm != multi) co.viol("validators:has_multiple_edges", std::string("on the graph read from the text has_multiple_edges returned ") + (gm ? "true" : "false") + ", truth is " + (multi ? "true" : "false"), cj, d.text); } }
}

static void check_validators(CaseOut &co, Rng &r) {
    int n = (int) r.range(1, 12); int m = (int) r.range(0, 20);
    bool allow_loops = r.chance(0.4);
    G g(n); auto w = boost::get(boost::edge_weight, g);
    bool loops = false, multi = false, nonpos = false; std::set<std::pair<int, int>> seen; std::string desc;
    int wk = (int) r.below(5); bool extreme = false;
    static const double xs[] = {1e-300, 4.9406564584124654e-324, 1e-17, 2.2204460492503131e-16, 1.1e-16, 1e-9, 1.1920928955078125e-7, 1e-5, 1e300, 1.7976931348623157e308,
        -1e-300, -4.9406564584124654e-324, -0.0, 0.0, -1e-17, 1.0, 3.0};
    for (int i = 0; i < m; i++) {
        int a = (int) r.below(n), b = (int) r.below(n);
        if (a == b && !allow_loops) { if (n == 1) continue; b = (a + 1 + (int) r.below(n - 1)) % n; }
        double wt = wk == 0 ? (double) r.range(1, 9) : wk == 1 ? (double) r.range(-2, 9) : wk == 2 ? (r.chance(0.1) ? 0.0 : r.range(1, 50) / 8.0) : (r.chance(0.05) ? -0.25 : r.range(1, 1000) / 1000.0);
        if (wk == 4) { int xi = r.chance(0.8) ? (int) r.below(10) : 10 + (int) r.below(7); wt = xs[xi]; if (xi < 12) extreme = true; }   // mostly positive extremes, so that "all positive" happens
        auto e = boost::add_edge(a, b, g).first; w[e] = wt;
        if (a == b) loops = true; if (!seen.insert({std::min(a, b), std::max(a, b)}).second) multi = true; if (wt <= 0) nonpos = true;
        { char wb[40]; snprintf(wb, sizeof wb, "%.17g", wt); desc += std::to_string(a) + "-" + std::to_string(b) + ":" + wb + " "; }
    }
    std::string cj = J().str("component", "validators").num("n", n).str("edges", desc).done();
    bool gl = parmcb::has_loops(g), gn = parmcb::has_non_positive_weights(g, w);
    if (gl != loops) co.viol("validators:has_loops", std::string("has_loops returned ") + (gl ? "true" : "false") + ", the multigraph " + (loops ? "has" : "has no") + " self-loop", cj, desc);
    if (gn != nonpos) co.viol("validators:has_non_positive_weights", std::string("has_non_positive_weights returned ") + (gn ? "true" : "false") + ", truth is " + (nonpos ? "true" : "false"), cj, desc);
    if (!loops) { bool gm = parmcb::has_multiple_edges(g); if (gm != multi) co.viol("validators:has_multiple_edges", std::string("has_multiple_edges returned ") + (gm ? "true" : "false") + ", truth is " + (multi ? "true" : "false"), cj, desc); }
    if (loops) co.tag("v:loops"); if (multi) co.tag("v:multi"); if (nonpos) co.tag("v:nonpos"); if (!loops && !multi && !nonpos) co.tag("v:clean"); if (extreme) co.tag(nonpos ? "v:extreme_magnitudes+nonpos" : "v:extreme_magnitudes_all_positive");
}

int main(int argc, char **argv) {
    Args a(argc, argv);
    if (a.mode != "c10") { fprintf(stderr, "unknown mode\n"); return 2; }
    for (uint64_t i = a.from; i < a.to; i++) {
        Rng r(case_seed(a.seed, "C10", i));
        CaseOut co(i);
        DimacsDoc d;
        if (!a.replay.empty()) {
            // replay file: raw DIMACS text; expectations are recomputed by a plain reference parser
            std::ifstream in(a.replay, std::ios::binary); std::stringstream ss; ss << in.rdbuf(); d.text = ss.str();
            d.trailing_newline = !d.text.empty() && d.text.back() == '\n';
            std::istringstream ls(d.text); std::string line;
            while (std::getline(ls, line)) {
                if (line.empty()) continue;
                if (line[0] == 'p') { char pb[64]; long nn = 0, mm = 0; sscanf(line.c_str(), "p %63s %ld %ld", pb, &nn, &mm); d.n = nn; d.last_kind = "problem_line"; }
                else if (line[0] == 'e' || line[0] == 'a') { FileEdge e; char c; char wt[64] = ""; int k = sscanf(line.c_str(), "%c %ld %ld %63s", &c, &e.u, &e.v, wt); e.has_w = k == 4; e.wtok = wt; e.w = e.has_w ? strtod(wt, nullptr) : 1.0;
                    if (e.u < 1 || e.u > d.n || e.v < 1 || e.v > d.n) d.must_throw = true; d.edges.push_back(e); d.last_kind = e.has_w ? "edge_with_weight" : "edge_without_weight"; }
                else d.last_kind = "comment";
            }
        } else d = gen_doc(r, (int) a.geti("max_n", 30), (int) a.geti("max_m", 25));
        check_doc(co, d);
        if (a.replay.empty()) check_validators(co, r);
        co.hash = mix(std::hash<std::string>()(d.text), 10); co.nontrivial = d.edges.size() >= 1;
        for (auto &f : d.features) co.tag(f);
        if ((int) (i - a.from) < a.samples) co.sample = J().str("text", d.text.size() > 400 ? d.text.substr(0, 400) + "..." : d.text).done();
        co.end();
        if (!a.replay.empty()) break;
    }
    return 0;
}
