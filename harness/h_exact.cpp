// Monitors for the exact entry points: C01 (basis validity), C02 (minimality), C09 (inexact doubles),
// C08 (metamorphic relations at scale).  Real oneTBB for the *_tbb variants.
#include "common/scramble_alloc.hpp"
#include "common/algos.hpp"
#include <tbb/global_control.h>

using namespace vf;

static std::string variant_case_json(const GraphSpec &s, const char *variant, const char *wtype) {
    return J().str("variant", variant).str("weight_type", wtype).raw("graph", spec_json(s)).done();
}

template<class W> static const char* wname();
template<> const char* wname<double>() { return "double"; }
template<> const char* wname<int>() { return "int"; }

// value returned by the library -> units (exact domain); ok=false if not an integral number of units
template<class W> static ll to_units(const GraphSpec &s, W v, bool &ok);
template<> ll to_units<double>(const GraphSpec &s, double v, bool &ok) {
    double u = std::ldexp(v, s.wshift);
    ok = std::isfinite(u) && std::fabs(u) < 9e18 && u == std::floor(u);
    return ok ? (ll) u : 0;
}
template<> ll to_units<int>(const GraphSpec &, int v, bool &ok) { ok = true; return v; }

// ------------------------------------------------------------------------------------------------
// C01 / C02
// ------------------------------------------------------------------------------------------------
template<class W>
static void run_c0102(const Args &a, CaseOut &co, const GraphSpec &s, bool want_c02, const std::vector<int> &variants) {
    typedef typename BG<W>::Graph G; typedef typename BG<W>::Edge E;
    G g; build_graph<W>(s, g);
    auto w = boost::get(boost::edge_weight, g);
    OracleResult orc;
    if (want_c02) { orc = horton_oracle(s); if (!orc.ok) { emit_harness_failure("oracle failed to find a basis"); exit(2); } }
    for (int v : variants) {
        std::list<std::list<E>> cycles; W ret = W();
        std::string exc, sink_err;
        bool positional = (mix(canon_hash(s), v) % 10) < 3;     // the output iterator is a template parameter: also a positional one
        bool ext_map = (mix(canon_hash(s), v + 77) % 10) < 2;    // the weight map is a template parameter too: an external std::map based one
        try {
            if (ext_map) {
                std::map<E, W> store; for (auto e : boost::make_iterator_range(boost::edges(g))) store[e] = boost::get(w, e);
                boost::associative_property_map<std::map<E, W>> wm(store);
                if (positional) { SlotSink<std::list<E>> sink((size_t) cycle_space_dim(s) + 4); ret = run_exact_it<W>(v, g, wm, sink.begin()); sink_err = sink.collect((size_t) cycle_space_dim(s), cycles); }
                else ret = run_exact_it<W>(v, g, wm, std::back_inserter(cycles));
            }
            else if (positional) { SlotSink<std::list<E>> sink((size_t) cycle_space_dim(s) + 4); ret = run_exact_it<W>(v, g, w, sink.begin()); sink_err = sink.collect((size_t) cycle_space_dim(s), cycles); }
            else ret = run_exact<W>(v, g, w, cycles);
        } catch (std::exception &e) { exc = e.what(); } catch (...) { exc = "unknown exception"; }
        std::string cj = variant_case_json(s, exact_names[v], wname<W>());
        if (!exc.empty()) { co.viol(std::string(exact_names[v]) + ":exception", "threw: " + exc, cj, spec_text(s)); continue; }
        if (positional) co.tag("sink:positional"); if (ext_map) co.tag("weightmap:external_std_map");
        if (!sink_err.empty()) { co.viol(std::string(exact_names[v]) + (want_c02 ? ":invalid_basis" : ":output_iterator_misuse"), "through a positional output iterator: " + sink_err, cj, spec_text(s)); continue; }
        BasisReport br = check_basis<W>(s, g, cycles);
        std::string obs = J().num("emitted_cycles", (ll) br.count).raw("cycle_weights_units", jnums(br.weights)).dbl("returned", (double) ret).done();
        if (!br.error.empty()) {
            co.viol(std::string(exact_names[v]) + (want_c02 ? ":invalid_basis" : ":" + br.kind), br.error, cj, spec_text(s), obs);
            continue;
        }
        if (want_c02) {
            bool ok; ll ru = to_units<W>(s, ret, ok);
            if (!ok || ru != br.total)
                co.viol(std::string(exact_names[v]) + ":returned_ne_emitted", "returned value " + std::to_string((double) ret) + " != sum of emitted cycle weights " + std::to_string(br.total) + " units", cj, spec_text(s), obs);
            if (br.total != orc.opt)
                co.viol(std::string(exact_names[v]) + ":not_minimum", "emitted weight " + std::to_string(br.total) + " units, optimum " + std::to_string(orc.opt), cj, spec_text(s),
                        J().raw("cycle_weights_units", jnums(br.weights)).raw("oracle_weights_units", jnums(orc.weights)).done());
            else {
                std::vector<ll> sw = br.weights; std::sort(sw.begin(), sw.end());
                if (sw != orc.weights)
                    co.viol(std::string(exact_names[v]) + ":weight_vector", "sorted cycle weights differ from the minimum basis weight vector", cj, spec_text(s),
                            J().raw("cycle_weights_units", jnums(sw)).raw("oracle_weights_units", jnums(orc.weights)).done());
            }
        }
    }
    (void) a;
}

static void mode_c0102(const Args &a, bool c02) {
    int max_n = (int) a.geti("max_n", 30);
    if (c02) {
        std::string why; long k = oracle_selfcheck(a.seed + a.from, (int) a.geti("selfcheck", 60), why);
        if (k < 0) { emit_harness_failure(why); exit(2); }
        emit_summary(J().num("oracle_selfcheck_graphs", k).done());
    }
    for (uint64_t i = a.from; i < a.to; i++) {
        Rng r(case_seed(a.seed, c02 ? "C02" : "C01", i));
        bool use_int = r.chance(0.35);
        GenOpts o; o.max_n = max_n; o.int_only = use_int; o.tie_bias = c02 ? 0.6 : 0.4; o.allow_degenerate = true;
        GraphSpec s;
        if (!a.replay.empty()) { std::ifstream in(a.replay); if (!parse_spec(in, s)) { emit_harness_failure("cannot parse replay spec"); exit(2); } use_int = a.gets("wtype", "double") == "int"; }
        else if (a.geti("large", 1) && r.chance(0.01)) s = gen_large_distinct(r);
        else if (a.geti("large", 1) && r.chance(0.12)) s = gen_wide_mid(r, use_int, 40, 90);
        else s = gen_graph(r, o);
        CaseOut co(i);
        int dim = cycle_space_dim(s);
        co.hash = mix(canon_hash(s), use_int);
        co.nontrivial = dim >= 2;
        co.tag(std::string("fam:") + s.family.substr(0, s.family.find('+')));
        co.tag(use_int ? "wtype:int" : "wtype:double");
        if (s.tie_rich && dim >= 2) co.tag("tie_rich");
        if (dim == 0) co.tag("forest_or_empty");
        if (dim >= 2 && s.m() > 0) co.tag(dim >= s.n ? "branch:dense(|S|>=n possible)" : "branch:sparse(|S|<n)");
        if (components(s) > 1) co.tag("disconnected");
        std::vector<int> variants = {V_SIGNED, V_FVS, V_ISO};
        if (!a.replay.empty() && a.opt.count("variant")) variants = {(int) a.geti("variant", 0)};
        if (use_int) run_c0102<int>(a, co, s, c02, variants); else run_c0102<double>(a, co, s, c02, variants);
        if ((int) (i - a.from) < a.samples) co.sample = J().raw("graph", spec_json(s, 60)).num("cycle_space_dim", dim).str("weight_type", use_int ? "int" : "double").done();
        co.end();
        if (!a.replay.empty()) break;
    }
}

// ------------------------------------------------------------------------------------------------
// C09: inexact double weights
// ------------------------------------------------------------------------------------------------
static void mode_c09(const Args &a) {
    int max_n = (int) a.geti("max_n", 24);
    std::string why; long k = oracle_selfcheck(a.seed + a.from, (int) a.geti("selfcheck", 40), why);
    if (k < 0) { emit_harness_failure(why); exit(2); }
    emit_summary(J().num("oracle_selfcheck_graphs", k).done());
    typedef BG<double>::Graph G; typedef BG<double>::Edge E;
    for (uint64_t i = a.from; i < a.to; i++) {
        Rng r(case_seed(a.seed, "C09", i));
        GraphSpec s;
        if (!a.replay.empty()) { std::ifstream in(a.replay); if (!parse_spec(in, s)) { emit_harness_failure("cannot parse replay spec"); exit(2); } }
        else {
            GenOpts o; o.max_n = max_n; o.decimal = true; o.allow_degenerate = true;
            bool near = r.chance(0.2); if (near) o.max_n = std::min(max_n, 12);
            s = gen_graph(r, o);
            if (near) {
                // eight-decimal weights: a few one- or two-decimal values plus 0..11 hundred-millionths, so that alternative routes differ
                // by 1e-8 .. 1e-7 - far above any rounding error of a double (1e-15 here), far below any weight, and with a small
                // total (few vertices, weights <= 1), well above the 1e-9 relative tolerance of the statement
                s.wmode = 2; s.wshift = 0; static const ll bases[] = {10000000, 20000000, 25000000, 30000000, 50000000, 70000000, 100000000};
                ll pool[3]; for (int q = 0; q < 3; q++) pool[q] = bases[r.below(7)]; int np = (int) r.range(1, 3);
                for (auto &e : s.edges) e.w = pool[r.below(np)] + (r.chance(0.5) ? (ll) r.below(12) : 0);
                s.tie_rich = true; s.family += "+near_ties_1e-8";
            } else if (r.chance(0.3)) {
                // "arbitrary" doubles: multiples of 2^-40 with up to 50 significant bits in [1e-3, 1e3]; sums are NOT exact in double
                s.wmode = 0; s.wshift = 40;
                int scheme = (int) r.below(3);
                std::vector<ll> pool; for (int q = 0; q < 4; q++) pool.push_back(r.range(1100000000LL, 1099511627776000LL));
                for (auto &e : s.edges) {
                    if (scheme == 0) e.w = pool[r.below(4)];                                      // few full-mantissa values: ties in Q, not in binary
                    else if (scheme == 1) e.w = r.range(1100000000LL, 1099511627776000LL);       // anything in [1e-3,1e3]
                    else e.w = r.range(1LL << 40, 1LL << 42) | 1;                                  // [1,4) odd mantissas
                }
                s.tie_rich = scheme == 0; s.family += "+bin40";
            }
        }
        CaseOut co(i);
        int dim = cycle_space_dim(s);
        co.hash = canon_hash(s); co.nontrivial = dim >= 2;
        co.tag(std::string("fam:") + s.family.substr(0, s.family.find('+')));
        co.tag(s.wmode == 1 ? "weights:decimal" : s.wmode == 2 ? "weights:near_ties_1e-8" : "weights:binary40");
        if (s.tie_rich && dim >= 2) co.tag("tie_rich");
        G g; build_graph<double>(s, g); auto w = boost::get(boost::edge_weight, g);
        OracleResult orc = horton_oracle(s);
        if (!orc.ok) { emit_harness_failure("oracle failed"); exit(2); }
        double unit = s.wmode == 1 ? 1e-3 : s.wmode == 2 ? 1e-8 : std::ldexp(1.0, -s.wshift);
        std::vector<int> variants = {0, 1, 2, 3, 4, 5};
        if (!a.replay.empty() && a.opt.count("variant")) variants = {(int) a.geti("variant", 0)};
        for (int v : variants) {
            std::list<std::list<E>> cycles; double ret = 0; std::string exc;
            try { ret = run_exact<double>(v, g, w, cycles); } catch (std::exception &e) { exc = e.what(); } catch (...) { exc = "unknown"; }
            std::string cj = variant_case_json(s, exact_names[v], "double");
            if (!exc.empty()) { co.viol(std::string(exact_names[v]) + ":exception", exc, cj, spec_text(s)); continue; }
            BasisReport br = check_basis<double>(s, g, cycles);
            std::string obs = J().num("emitted_cycles", (ll) br.count).raw("cycle_weights_units", jnums(br.weights)).dbl("returned", ret).num("optimum_units", orc.opt).done();
            if (!br.error.empty()) { co.viol(std::string(exact_names[v]) + ":invalid_basis(" + br.kind + ")", br.error, cj, spec_text(s), obs); continue; }
            long double exact_sum = (long double) br.total * unit;
            if (!(std::fabs((long double) ret - exact_sum) <= 1e-9L * exact_sum))
                co.viol(std::string(exact_names[v]) + ":returned_ne_emitted", "returned value differs from the sum of emitted weights by more than 1e-9 relative", cj, spec_text(s), obs);
            long double d = (long double) br.total - (long double) orc.opt;
            if (d < 0) { emit_harness_failure("emitted basis lighter than oracle optimum: oracle is wrong"); exit(2); }
            if (!(d <= 1e-9L * (long double) orc.opt))
                co.viol(std::string(exact_names[v]) + ":not_minimum", "emitted weight exceeds the true minimum by more than 1e-9 relative", cj, spec_text(s), obs);
        }
        if ((int) (i - a.from) < a.samples) co.sample = J().raw("graph", spec_json(s, 40)).num("cycle_space_dim", dim).done();
        co.end();
        if (!a.replay.empty()) break;
    }
}

// ------------------------------------------------------------------------------------------------
// C08: metamorphic relations
// ------------------------------------------------------------------------------------------------
struct Xform { std::string name; GraphSpec g; ll expect_mul_shift = 0; ll expect_add = 0; bool layout = false; };

static GraphSpec big_graph(Rng &r, int lo, int hi) {
    GraphSpec s; int kind = (int) r.below(6);
    Topo t; int n = 0; bool regular = false;
    int target = (int) r.range(lo, hi);
    if (kind == 0 || kind == 1) { n = target; double deg = kind == 0 ? 2.2 + r.real() * 2.5 : 5 + r.real() * 6; topo_er(r, t, n, std::min(1.0, deg / n)); s.family = kind == 0 ? "er_sparse" : "er_dense"; }
    else if (kind == 2) { int a = std::max(2, (int) std::sqrt((double) target)); int b = std::max(2, target / a); n = topo_grid(t, a, b, r.chance(0.3)); s.family = "grid"; regular = true; }
    else if (kind == 3) { int d = 3; while ((1 << (d + 1)) <= target && d < 8) d++; n = topo_hypercube(t, d); s.family = "hypercube"; regular = true; }
    else if (kind == 4) { n = target; topo_cycle_chords(r, t, n, n / 3 + 2); s.family = "cycle_chords"; }
    else { GenOpts o; o.max_n = std::min(hi, 40); Rng r2(r.next()); GraphSpec q = gen_graph(r2, o); return q; }
    dedup(t);
    s.n = n; for (auto &e : t) s.edges.push_back({e.first, e.second, 1});
    r.shuffle(s.edges);
    GenOpts o; o.tie_bias = 0.45;
    assign_weights(r, s, o, regular);
    return s;
}

static GraphSpec relabel(Rng &r, const GraphSpec &s) {
    GraphSpec t = s; std::vector<int> p(s.n); std::iota(p.begin(), p.end(), 0); r.shuffle(p);
    for (auto &e : t.edges) { e.u = p[e.u]; e.v = p[e.v]; } return t;
}
static GraphSpec reorder(Rng &r, const GraphSpec &s) {
    GraphSpec t = s; r.shuffle(t.edges); for (auto &e : t.edges) if (r.chance(0.5)) std::swap(e.u, e.v); return t;
}

static double run_one(int variant, const GraphSpec &s, bool scramble, uint64_t lseed, size_t &ncycles, uint64_t &layout_sig) {
    typedef BG<double>::Graph G; typedef BG<double>::Edge E;
    require_in_domain(s, "c08");
    G g(s.n);
    auto w = boost::get(boost::edge_weight, g);
    vscr::begin(scramble, lseed, 2 * s.edges.size() + 3 * (size_t) s.n + 64);
    for (auto &e : s.edges) { auto x = boost::add_edge(e.u, e.v, g).first; w[x] = to_weight<double>(s, e.w); }
    vscr::end();
    // layout signature: permutation of edge property addresses relative to insertion order
    std::vector<std::pair<const void*, int>> addr; int k = 0;
    for (auto e : boost::make_iterator_range(boost::edges(g))) addr.push_back({(const void*) e.get_property(), k++});
    std::sort(addr.begin(), addr.end()); layout_sig = 0; for (auto &p : addr) layout_sig = mix(layout_sig, p.second);
    std::list<std::list<E>> cycles;
    double v = run_exact<double>(variant, g, w, cycles);
    ncycles = cycles.size();
    return v;
}

static void mode_c08(const Args &a) {
    int lo = (int) a.geti("min_n", 30), hi = (int) a.geti("max_n", 150);
    int per_xform = (int) a.geti("variants_per_xform", 2);
    for (uint64_t i = a.from; i < a.to; i++) {
        Rng r(case_seed(a.seed, "C08", i));
        GraphSpec s;
        if (!a.replay.empty()) { std::ifstream in(a.replay); if (!parse_spec(in, s)) { emit_harness_failure("cannot parse replay spec"); exit(2); } }
        else s = big_graph(r, lo, hi);
        CaseOut co(i);
        int dim = cycle_space_dim(s);
        co.hash = canon_hash(s); co.nontrivial = dim >= 2;
        co.tag("fam:" + s.family.substr(0, s.family.find('+')));
        if (s.n >= 100) co.tag("n>=100"); if (dim >= 100) co.tag("csd>=100");
        // base value: all six variants must agree
        std::vector<double> base(6); bool agree = true; size_t nc; uint64_t sig0, sig;
        for (int v = 0; v < 6; v++) {
            base[v] = run_one(v, s, false, 0, nc, sig0);
            if ((int) nc != dim) co.viol(std::string(exact_names[v]) + ":wrong_count", "emitted " + std::to_string(nc) + " cycles, dimension " + std::to_string(dim), variant_case_json(s, exact_names[v], "double"), spec_text(s));
            if (base[v] != base[0]) agree = false;
        }
        if (!agree) {
            std::vector<std::string> vals; for (double d : base) { char b[40]; snprintf(b, sizeof b, "%.17g", d); vals.push_back(b); }
            co.viol("variants_disagree", "exact variants return different optimum weights", variant_case_json(s, "all", "double"), spec_text(s), J().raw("values", jarr(vals, false)).done());
        }
        bool okb; ll base_units = to_units<double>(s, base[0], okb);
        if (!okb) co.viol("value_not_exact", "returned value is not an integral number of weight units", variant_case_json(s, exact_names[0], "double"), spec_text(s));
        // transformed copies
        std::vector<Xform> xs;
        { Xform x; x.name = "relabel"; x.g = relabel(r, s); xs.push_back(x); }
        { Xform x; x.name = "edge_order"; x.g = reorder(r, s); xs.push_back(x); }
        { Xform x; x.name = "relabel+edge_order"; x.g = reorder(r, relabel(r, s)); xs.push_back(x); }
        { Xform x; x.name = "heap_layout"; x.g = s; x.layout = true; xs.push_back(x); }
        { Xform x; x.name = "isolated"; x.g = s; x.g.n += (int) r.range(1, 5); xs.push_back(x); }
        { Xform x; x.name = "pendant_trees"; x.g = s; int k = (int) r.range(1, 8); if (x.g.n == 0) x.g.n = 1;
          for (int q = 0; q < k; q++) { x.g.edges.push_back({(int) r.below(x.g.n), x.g.n, r.range(1, 9)}); x.g.n++; } x.g = reorder(r, x.g); xs.push_back(x); }
        { // disjoint union with a second graph, joined or not by a bridge
          GenOpts o; o.max_n = 20; o.int_only = true; Rng r2(r.next()); GraphSpec h = gen_graph(r2, o);
          for (auto &e : h.edges) e.w <<= s.wshift;  // same unit
          h.wshift = s.wshift;
          OracleResult oh = horton_oracle(h);
          Xform x; x.name = "disjoint_union"; x.g = s; for (auto &e : h.edges) x.g.edges.push_back({e.u + s.n, e.v + s.n, e.w}); x.g.n += h.n; x.expect_add = oh.opt;
          Xform y = x; y.name = "union+bridge"; if (s.n > 0 && h.n > 0) { y.g.edges.push_back({(int) r.below(s.n), s.n + (int) r.below(h.n), r.range(1, 7)}); y.g = reorder(r, y.g); }
          xs.push_back(x); xs.push_back(y); }
        { Xform x; x.name = "subdivide"; x.g = s; int tries = 0; int cnt = (int) r.range(1, 4);
          for (int q = 0; q < cnt && !x.g.edges.empty(); q++) { size_t ei = r.below(x.g.edges.size()); while (x.g.edges[ei].w < 2 && tries++ < 50) ei = r.below(x.g.edges.size());
            if (x.g.edges[ei].w < 2) break; Ed e = x.g.edges[ei]; ll w1 = r.range(1, e.w - 1); int mid = x.g.n++; x.g.edges[ei] = {e.u, mid, w1}; x.g.edges.push_back({mid, e.v, e.w - w1}); }
          x.g = reorder(r, x.g); xs.push_back(x); }
        { Xform x; x.name = "scale_pow2"; x.g = s; int j = (int) r.range(1, 6); for (auto &e : x.g.edges) e.w <<= j; x.expect_mul_shift = j; xs.push_back(x); }
        size_t layouts_distinct = 0;
        for (auto &x : xs) {
            std::vector<int> vs = {0, 1, 2, 3, 4, 5}; r.shuffle(vs); vs.resize(std::min<size_t>(per_xform, 6));
            for (int v : vs) {
                double val = run_one(v, x.g, x.layout, r.next(), nc, sig);
                if (x.layout && sig != sig0) layouts_distinct++;
                bool ok; ll u = to_units<double>(x.g, val, ok);
                ll expect = (base_units << x.expect_mul_shift) + x.expect_add;
                if (!ok || u != expect)
                    co.viol(std::string("metamorphic:") + x.name, std::string(exact_names[v]) + " returned " + std::to_string(val) + " (" + std::to_string(u) + " units) on the transformed copy, expected " + std::to_string(expect) + " units (base " + std::to_string(base_units) + ")",
                            J().str("variant", exact_names[v]).str("transform", x.name).raw("base_graph", spec_json(s)).raw("transformed_graph", spec_json(x.g)).done(), spec_text(x.g));
            }
            co.tag("xform:" + x.name);
        }
        if (layouts_distinct) co.tag("layout_differs_from_natural");
        if ((int) (i - a.from) < a.samples) co.sample = J().raw("graph", spec_json(s, 30)).num("cycle_space_dim", dim).dbl("optimum", base[0]).done();
        co.end();
        if (!a.replay.empty()) break;
    }
}


// ------------------------------------------------------------------------------------------------
// oracle dump: generated graph + Horton+Gauss answer, for cross-validation against networkx (thorough tier of C02)
// ------------------------------------------------------------------------------------------------
static void mode_oracle(const Args &a) {
    int max_n = (int) a.geti("max_n", 26);
    for (uint64_t i = a.from; i < a.to; i++) {
        Rng r(case_seed(a.seed, "C02", i));
        bool use_int = r.chance(0.35);
        GenOpts o; o.max_n = max_n; o.int_only = use_int; o.tie_bias = 0.6; o.allow_degenerate = true;
        GraphSpec s = gen_graph(r, o);
        CaseOut co(i);
        OracleResult orc = horton_oracle(s);
        co.hash = canon_hash(s); co.nontrivial = orc.dim >= 2;
        co.sample = J().raw("graph", spec_json(s, 100000)).num("dim", orc.dim).num("opt_units", orc.opt).raw("weights_units", jnums(orc.weights)).done();
        co.end();
    }
}

int main(int argc, char **argv) {
    Args a(argc, argv);
    // many harness processes run side by side: keep oneTBB from oversubscribing the machine (schedules are C03's business)
    tbb::global_control tbb_limit(tbb::global_control::max_allowed_parallelism, (size_t) std::max<ll>(1, a.geti("tbb_threads", 2)));
    if (a.mode == "c01") mode_c0102(a, false);
    else if (a.mode == "c02") mode_c0102(a, true);
    else if (a.mode == "c09") mode_c09(a);
    else if (a.mode == "c08") mode_c08(a);
    else if (a.mode == "oracle") mode_oracle(a);
    else { fprintf(stderr, "unknown mode\n"); return 2; }
    return 0;
}
