// Monitor for C04: the five MPI entry points inside a real mpiexec job.  Every rank builds the same graph
// (same numbering, same insertion order) under its own heap layout (scrambling allocator seeded by case and
// rank), logs ENTER/RETURN markers to its own file, and rank 0 validates the result against the oracle.
#include "common/scramble_alloc.hpp"
#include "common/vcommon.hpp"
#include <boost/mpi/environment.hpp>
#include <boost/mpi/communicator.hpp>
#include <boost/mpi/collectives.hpp>
#include <parmcb/parmcb.hpp>
#include <parmcb/mpi/parmcb.hpp>
#include <tbb/global_control.h>

using namespace vf;

static const char *mpi_names[] = {"mcb_sva_signed_mpi", "mcb_sva_fvs_trees_mpi", "mcb_sva_fvs_trees_tbb_mpi", "mcb_sva_iso_trees_mpi", "mcb_sva_iso_trees_tbb_mpi"};
static FILE *g_out = nullptr;

template<class W>
static W run_mpi(int entry, const typename BG<W>::Graph &g, typename BG<W>::WMap w, std::list<std::list<typename BG<W>::Edge>> &out, boost::mpi::communicator &world) {
    switch (entry) {
    case 0: return parmcb::mcb_sva_signed_mpi(g, w, std::back_inserter(out), world);
    case 1: return parmcb::mcb_sva_fvs_trees_mpi(g, w, std::back_inserter(out), world);
    case 2: return parmcb::mcb_sva_fvs_trees_tbb_mpi(g, w, std::back_inserter(out), world);
    case 3: return parmcb::mcb_sva_iso_trees_mpi(g, w, std::back_inserter(out), world);
    default: return parmcb::mcb_sva_iso_trees_tbb_mpi(g, w, std::back_inserter(out), world);
    }
}

static bool to_units_d(const GraphSpec &, int v, ll &u) { u = v; return true; }
static bool to_units_d(const GraphSpec &s, double v, ll &u) { double x = std::ldexp(v, s.wshift); if (!std::isfinite(x) || std::fabs(x) > 9e18 || x != std::floor(x)) return false; u = (ll) x; return true; }

struct Ctx { boost::mpi::communicator &world; int rank, P; const Args &a; int elo, ehi; };
static void mark(uint64_t i, int entry, const char *what, const std::string &extra = "") { fprintf(g_out, "M %llu %s %s %s\n", (unsigned long long) i, mpi_names[entry], what, extra.c_str()); fflush(g_out); }

template<class W>
static void run_case(Ctx &c, uint64_t i, const GraphSpec &s, bool scramble, uint64_t lseed) {
    boost::mpi::communicator &world = c.world; int rank = c.rank, P = c.P; const Args &a = c.a; int elo = c.elo, ehi = c.ehi;
        int dim = cycle_space_dim(s);
        {
            { std::set<std::pair<int, int>> seen; bool bad = false; for (auto &e : s.edges) if (e.u == e.v || e.w <= 0 || e.u >= s.n || e.v >= s.n || !seen.insert({std::min(e.u, e.v), std::max(e.u, e.v)}).second) bad = true;
              if (bad) { if (rank == 0) { fprintf(g_out, "X {\"msg\":\"generator left the domain in h_mpi, family %s\"}\n", s.family.c_str()); fflush(g_out); } world.abort(2); } }
            typedef typename BG<W>::Graph G; typedef typename BG<W>::Edge E; typedef typename BG<W>::WMap WM;
            G g(s.n); WM w = boost::get(boost::edge_weight, g);
            vscr::begin(scramble, mix(lseed, (uint64_t) rank + 1), 2 * s.edges.size() + 3 * (size_t) s.n + 64);
            for (auto &e : s.edges) { auto x = boost::add_edge(e.u, e.v, g).first; w[x] = to_weight<W>(s, e.w); }
            vscr::end();
            // per-rank layout signature: order of edge-property addresses relative to insertion order
            std::vector<std::pair<const void*, int>> addr; int k = 0;
            for (auto e : boost::make_iterator_range(boost::edges(g))) addr.push_back({(const void*) e.get_property(), k++});
            std::sort(addr.begin(), addr.end()); uint64_t sig = 0x51; for (auto &p : addr) sig = mix(sig, p.second);
            std::vector<uint64_t> sigs; boost::mpi::gather(world, sig, sigs, 0);
            std::vector<std::string> viols; std::vector<std::string> tags;
            OracleResult orc; if (rank == 0) orc = horton_oracle(s);
            for (int entry = elo; entry <= ehi; entry++) {
                if (entry >= 3 && s.family == "long_ring_three_lobes") continue;   // the isometric variants need minutes on a 2 400-vertex ring even sequentially
                std::list<std::list<E>> cycles; W ret = 0; std::string exc;
                mark(i, entry, "ENTER");
                try { ret = run_mpi<W>(entry, g, w, cycles, world); } catch (std::exception &e) { exc = e.what(); } catch (...) { exc = "unknown"; }
                { char b[96]; snprintf(b, sizeof b, "emitted=%zu value=%.17g", cycles.size(), (double) ret); mark(i, entry, "RETURN", b); }
                // non-root ranks must emit nothing
                int emitted_elsewhere = (rank != 0 && !cycles.empty()) ? 1 : 0; int any = 0;
                boost::mpi::reduce(world, emitted_elsewhere, any, std::plus<int>(), 0);
                int threw = exc.empty() ? 0 : 1, anythrew = 0; boost::mpi::reduce(world, threw, anythrew, std::plus<int>(), 0);
                if (rank == 0) {
                    std::string cj = J().str("entry", mpi_names[entry]).str("weight_type", std::is_same<W, int>::value ? "int" : "double").num("ranks", P).str("layout", scramble ? "scrambled" : "natural").unum("layout_seed", lseed).raw("graph", spec_json(s)).done();
                    std::string key = std::string(mpi_names[entry]) + ":";
                    auto V = [&](const std::string &k2, const std::string &detail, const std::string &obs = "{}") {
                        viols.push_back(J().str("key", key + k2).str("detail", detail + " [P=" + std::to_string(P) + ", layout " + (scramble ? "scrambled seed " + std::to_string(lseed) : std::string("natural")) + "]").raw("case", cj).str("spec_text", spec_text(s)).raw("observed", obs).done()); };
                    if (anythrew) V("exception", "an exception escaped on " + std::to_string(anythrew) + " rank(s): " + exc);
                    else {
                        if (any) V("nonroot_emitted", std::to_string(any) + " non-root rank(s) emitted cycles");
                        BasisReport br = check_basis<W>(s, g, cycles);
                        std::string obs = J().num("emitted_cycles", (ll) br.count).raw("cycle_weights_units", jnums(br.weights)).dbl("returned", (double) ret).num("optimum_units", orc.opt).done();
                        if (!br.error.empty()) V("invalid_basis(" + br.kind + ")", br.error, obs);
                        else {
                            ll ru; if (!to_units_d(s, ret, ru) || ru != br.total) V("returned_ne_emitted", "returned " + std::to_string(ret) + ", emitted cycles weigh " + std::to_string(br.total) + " units", obs);
                            if (br.total != orc.opt) V("not_minimum", "emitted " + std::to_string(br.total) + " units, optimum " + std::to_string(orc.opt), obs);
                        }
                    }
                }
            }
            if (rank == 0) {
                std::set<uint64_t> ds(sigs.begin(), sigs.end());
                char hb[32]; snprintf(hb, sizeof hb, "%016llx", (unsigned long long) mix(mix(mix(canon_hash(s), P), scramble ? lseed : 0), std::is_same<W, int>::value ? 1 : 0));
                tags.push_back("P=" + std::to_string(P)); tags.push_back(std::is_same<W, int>::value ? "wtype:int" : "wtype:double"); tags.push_back(std::string("fam:") + s.family.substr(0, s.family.find('+')));
                tags.push_back(scramble ? "layout:scrambled" : "layout:natural"); if (ds.size() >= 2) tags.push_back("ranks_hold_different_layouts");
                if (dim == 0) tags.push_back("forest_or_empty"); if (dim >= 2 && dim < s.n) tags.push_back("signed:hidden_edge_branch_possible"); if (dim >= s.n && dim >= 2) tags.push_back("signed:dense_branch_possible");
                if (s.n >= 1800) tags.push_back("cycles_of_600+_edges"); if (P > s.n) tags.push_back("P>n"); if (P > dim && dim > 0) tags.push_back("P>csd");
                bool nt = dim >= 2 && P >= 2 && ds.size() >= 2;
                J j; j.str("h", hb).num("nt", nt ? 1 : 0).raw("tags", jarr(tags, true));
                if (!viols.empty()) j.raw("viol", jarr(viols, false));
                if ((int) (i - a.from) < a.samples) j.raw("sample", J().raw("graph", spec_json(s, 40)).num("ranks", P).num("distinct_rank_layouts", (ll) ds.size()).num("cycle_space_dim", dim).done());
                fprintf(g_out, "E %llu %s\n", (unsigned long long) i, j.done().c_str()); fflush(g_out);
            }
        }
}

int main(int argc, char **argv) {
    boost::mpi::environment env(argc, argv, boost::mpi::threading::multiple);
    boost::mpi::communicator world;
    Args a(argc, argv);
    std::string prefix = a.gets("out", "/tmp/h_mpi");
    int rank = world.rank(), P = world.size();
    g_out = fopen((prefix + ".rank" + std::to_string(rank)).c_str(), "w");
    if (!g_out) { fprintf(stderr, "cannot open output\n"); return 2; }
    tbb::global_control gc(tbb::global_control::max_allowed_parallelism, (size_t) std::max<ll>(1, a.geti("tbb_threads", 2)));
    int max_n = (int) a.geti("max_n", 22);
    std::string layout_mode = a.gets("layout", "mixed");
    int elo = (int) a.geti("entry_lo", 0), ehi = (int) a.geti("entry_hi", 4);
    long selfq = 0;
    if (rank == 0) { std::string why; selfq = oracle_selfcheck(a.seed + a.from, (int) a.geti("selfcheck", 20), why); if (selfq < 0) { fprintf(g_out, "X %s\n", J().str("msg", why).done().c_str()); fflush(g_out); world.abort(2); } }
    for (uint64_t i = a.from; i < a.to; i++) {
        Rng r(case_seed(a.seed, "C04", i));       // identical on all ranks
        GraphSpec s; bool use_int = false;
        if (!a.replay.empty()) { std::ifstream in(a.replay); if (!parse_spec(in, s)) { if (rank == 0) { fprintf(g_out, "X {\"msg\":\"cannot parse replay spec\"}\n"); fflush(g_out); } world.abort(2); } use_int = a.gets("wtype", "double") == "int"; }
        else {
            use_int = r.chance(0.25);   // the weight value type is a template parameter (reductions, sentinels): int as well as double
            GenOpts o; o.max_n = max_n; o.tie_bias = 0.55; o.allow_degenerate = true; o.int_only = use_int;
            if (r.chance(a.geti("long_cycles_permille", 30) / 1000.0)) {
                // a ring of 3L unit edges cut into three lobes of L+1 edges by a triangle of chords: the basis cycles have 600-750 edges, so
                // whatever the ranks exchange about a cycle no longer fits a small message (MPI eager limit: 4 KiB on shared memory here)
                int L = (int) r.range(600, 750); int n = 3 * L; s.n = n; use_int = false;
                for (int q = 0; q < n; q++) s.edges.push_back({q, (q + 1) % n, 1});
                s.edges.push_back({0, L, 2}); s.edges.push_back({L, 2 * L, 2}); s.edges.push_back({0, 2 * L, 2});
                r.shuffle(s.edges); s.family = "long_ring_three_lobes"; s.wshift = 0; s.wmode = 0; s.tie_rich = false;
            }
            else if (r.chance(0.2)) { // dense: the all-vertices branch of the signed variant (|S_k| >= n) runs, with n not divisible by most rank counts
                Topo t; int n = (int) r.range(6, std::min(max_n, 13)); topo_er(r, t, n, 0.7 + 0.3 * r.real()); dedup(t);
                s.n = n; for (auto &e : t) s.edges.push_back({e.first, e.second, 1}); r.shuffle(s.edges); s.family = "er_dense"; assign_weights(r, s, o, false); }
            else if (r.chance(0.35)) { Topo t; int n = (int) r.range(4, max_n); topo_er(r, t, n, std::min(1.0, (1.5 + 5 * r.real()) / n)); if (r.chance(0.7)) topo_tree(r, t, n); dedup(t);
                s.n = n; for (auto &e : t) s.edges.push_back({e.first, e.second, 1}); r.shuffle(s.edges); s.family = "er"; assign_weights(r, s, o, false); }
            else s = gen_graph(r, o);
        }
        if (use_int) { ll tot = 0; for (auto &e : s.edges) tot += e.w; if (s.wshift != 0 || s.wmode != 0 || tot * 12 > 2000000000LL) use_int = false; }
        bool scramble = layout_mode == "scrambled" || (layout_mode == "mixed" && r.chance(0.7));
        uint64_t lseed = a.opt.count("layout_seed") ? strtoull(a.gets("layout_seed", "1").c_str(), 0, 10) : r.next();
        if (rank == 0) { fprintf(g_out, "B %llu\n", (unsigned long long) i); fflush(g_out); }
        { Ctx cx{world, rank, P, a, elo, ehi}; if (use_int) run_case<int>(cx, i, s, scramble, lseed); else run_case<double>(cx, i, s, scramble, lseed); }
        if (!a.replay.empty()) break;
    }
    if (rank == 0) { fprintf(g_out, "S %s\n", J().num("oracle_selfcheck_graphs", selfq).done().c_str()); fflush(g_out); }
    fprintf(g_out, "DONE\n"); fclose(g_out);
    return 0;
}
