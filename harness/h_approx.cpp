// Monitors for the approximate entry points: C05 (basis of the caller's graph, true weight),
// C06 ((2k-1) guarantee, k=1 exact, k=0 rejected), C15 (the intermediate spanner; uses the PARMCB_VERIF hook).
#define VF_WITH_APPROX 1
#include "common/algos.hpp"

using namespace vf;

typedef BG<double>::Graph G;
typedef BG<double>::Edge E;
typedef BG<double>::WMap WM;

// graphs whose (2k-1)-spanner still has cycles: girth > 2k
static GraphSpec gen_approx_graph(Rng &r, int max_n, size_t &k_out, bool int_only) {
    GenOpts o; o.max_n = max_n; o.int_only = int_only; o.tie_bias = 0.5;
    GraphSpec s;
    int pick = (int) r.below(10);
    static const int ks[] = {1, 1, 2, 2, 2, 3, 3, 4, 5};
    size_t k = ks[r.below(9)];
    if (pick == 9) {
        // "heavy shortcut fan": one very heavy edge x==u that the greedy spanner must keep (its light detour has 2k hops), and m
        // chords (v_i,u) that are dropped and whose shortest closing path (2k-1 light hops) avoids the heavy edge although a
        // 2-hop route through it exists.  Any closing path that is not a shortest path costs ~W per chord and breaks the bound.
        k = (size_t) r.range(2, 3);
        int m = (int) r.range(3, 8); ll W = r.chance(0.5) ? 1000 : 200;
        Topo t; std::vector<ll> wt; int n = 3; const int x = 0, u = 1, b = 2;
        auto E = [&](int a_, int b_, ll w_) { s.edges.push_back({a_, b_, w_}); };
        E(x, u, W); E(b, u, r.range(1, 2));
        for (int i = 0; i < m; i++) {
            int v = n++; E(v, x, r.range(1, 2));
            int prev = v; for (size_t h = 0; h + 3 < 2 * k; h++) { int a_ = n++; E(prev, a_, r.range(1, 2)); prev = a_; }   // 2k-3 inner hops
            E(prev, b, r.range(1, 2));
            E(v, u, 3);
        }
        s.n = n; s.family = "heavy_shortcut_fan";
        std::vector<int> perm(n); std::iota(perm.begin(), perm.end(), 0); r.shuffle(perm);
        for (auto &e : s.edges) { e.u = perm[e.u]; e.v = perm[e.v]; if (r.chance(0.5)) std::swap(e.u, e.v); }
        r.shuffle(s.edges); s.wshift = 0; s.wmode = 0; s.tie_rich = false;
        k_out = k;
        return s;
    }
    if (pick < 4) {
        s = gen_graph(r, o);
    } else {
        // girth-critical constructions
        Topo t; int n = 0; std::string fam;
        int kind = (int) r.below(5);
        if (kind == 0) { // long cycle(s) plus chords
            n = (int) r.range(2 * k + 1, std::max<ll>(2 * k + 2, max_n)); topo_cycle_chords(r, t, n, (int) r.below(4)); fam = "long_cycle_chords";
        } else if (kind == 1) { // cycles of length exactly 2k, 2k+1, 2k+2 glued at a vertex
            n = 1; for (int c = 0; c < 3; c++) { int len = (int) (2 * k + c) ; if (len < 3) len = 3; int prev = 0; for (int i = 1; i < len; i++) { add_e(t, prev, n); prev = n++; } add_e(t, prev, 0); } fam = "girth_critical";
        } else if (kind == 2) { int a = (int) r.range(2, 6), b = (int) r.range(2, 6); n = topo_grid(t, a, b, r.chance(0.3)); fam = "grid"; }
        else if (kind == 3) { n = (int) r.range(6, std::max(7, max_n)); topo_er(r, t, n, std::min(1.0, (1.6 + r.real()) / n)); topo_tree(r, t, n); fam = "sparse_connected"; }
        else { n = topo_theta(r, t, (int) r.range(2, 4), (int) (k + 2), r.chance(0.5)); fam = "theta_long"; }
        dedup(t);
        std::vector<int> perm(n); std::iota(perm.begin(), perm.end(), 0); r.shuffle(perm);
        s.n = n; for (auto &e : t) { int a = perm[e.first], b = perm[e.second]; if (r.chance(0.5)) std::swap(a, b); s.edges.push_back({a, b, 1}); }
        r.shuffle(s.edges); s.family = fam;
        assign_weights(r, s, o, kind == 2);
        if (r.chance(0.25) && !s.edges.empty()) { // one heavy chord closing a long light cycle / geometric weights
            if (r.chance(0.5)) s.edges[r.below(s.edges.size())].w = 1000; else { ll w = 1; for (auto &e : s.edges) { e.w = w; if (w < (1 << 20)) w *= 2; } r.shuffle(s.edges); }
            s.tie_rich = false; s.family += "+adversarial_w";
        }
    }
    if (r.chance(0.1)) k = std::max(1, s.n);
    k_out = k;
    return s;
}

// dummy exact phase used to look at the spanner through the hook without running anything
template<class Gr, class Wm, class Out>
struct NullExact { double operator()(const Gr&, const Wm&, Out) { return 0; } };

struct SpannerView { int n = 0; std::vector<std::tuple<int, int, double>> edges; };
static SpannerView g_spy;
template<class Gr, class Wm, class Out>
struct SpyExact {
    double operator()(const Gr &sp, const Wm &w, Out) {
        g_spy = SpannerView(); g_spy.n = (int) boost::num_vertices(sp);
        for (auto e : boost::make_iterator_range(boost::edges(sp))) g_spy.edges.emplace_back((int) boost::source(e, sp), (int) boost::target(e, sp), (double) boost::get(w, e));
        return 0;
    }
};

template<class G, class WM>
static int spanner_csd(const G &g, WM w, size_t k) {
    typedef typename boost::graph_traits<G>::edge_descriptor E;
    typedef std::back_insert_iterator<std::list<std::list<E>>> Out;
    parmcb::detail::BaseApproxSpannerAlgorithm<G, WM, NullExact<G, WM, Out>, false> algo(g, w, boost::get(boost::vertex_index, g), k);
    const G &sp = algo.verif_spanner();
    int n = (int) boost::num_vertices(sp); UF uf(n); int c = n;
    for (auto e : boost::make_iterator_range(boost::edges(sp))) if (uf.unite((int) boost::source(e, sp), (int) boost::target(e, sp))) c--;
    return (int) boost::num_edges(sp) - n + c;
}

static std::string acase(const GraphSpec &s, const char *variant, size_t k, const char *wtype = "double") {
    return J().str("variant", variant).str("weight_type", wtype).num("k", (ll) k).raw("graph", spec_json(s)).done();
}

struct CountingIt {
    long *count;
    typedef std::output_iterator_tag iterator_category; typedef void value_type; typedef void difference_type; typedef void pointer; typedef void reference;
    CountingIt& operator*() { return *this; } CountingIt& operator++() { return *this; } CountingIt& operator++(int) { return *this; }
    template<class T> CountingIt& operator=(const T&) { ++*count; return *this; }
};

static bool to_units_d(const GraphSpec &s, double v, ll &u) {
    double x = std::ldexp(v, s.wshift);
    if (!std::isfinite(x) || std::fabs(x) > 9e18 || x != std::floor(x)) return false;
    u = (ll) x; return true;
}

template<class W> static bool to_units_w(const GraphSpec &s, W v, ll &u);
template<> bool to_units_w<double>(const GraphSpec &s, double v, ll &u) { return to_units_d(s, v, u); }
template<> bool to_units_w<int>(const GraphSpec &, int v, ll &u) { u = v; return true; }

template<class W>
static void case_c0506(const Args &a, bool c06, uint64_t i, const GraphSpec &s, size_t k, bool deref, int vlo, int vhi) {
        CaseOut co(i);
        typedef typename BG<W>::Graph G; typedef typename BG<W>::Edge E; typedef typename BG<W>::WMap WM;
        int dim = cycle_space_dim(s);
        G g; build_graph<W>(s, g); WM w = boost::get(boost::edge_weight, g);
        int sp_csd = k >= 1 ? spanner_csd(g, w, k) : 0;
        co.hash = mix(mix(canon_hash(s), k), std::is_same<W, int>::value ? 1 : 0);
        co.nontrivial = c06 ? (dim >= 2) : (sp_csd >= 1 && dim > sp_csd ? true : sp_csd >= 1);
        co.tag("fam:" + s.family.substr(0, s.family.find('+'))); co.tag(std::is_same<W, int>::value ? "wtype:int" : "wtype:double");
        co.tag("k=" + std::to_string(std::min<size_t>(k, 6)) + (k >= 6 ? "+" : ""));
        if (sp_csd >= 1) co.tag("spanner_has_cycles"); if (dim > sp_csd) co.tag("has_non_spanner_edges"); if (dim == 0) co.tag("forest_or_empty");
        if (s.tie_rich) co.tag("tie_rich");
        OracleResult orc; if (c06) { orc = horton_oracle(s); if (!orc.ok) { emit_harness_failure("oracle failed"); exit(2); } }
        for (int v = vlo; v <= vhi; v++) {
            std::string cj = acase(s, approx_names[v], k, std::is_same<W, int>::value ? "int" : "double");
            if (k == 0) {
                long cnt = 0; bool threw = false;
                try { run_approx_it<W>(v, g, w, k, CountingIt{&cnt}); } catch (...) { threw = true; }
                if (!threw) co.viol(std::string(approx_names[v]) + ":k0_not_rejected", "k = 0 was accepted (no exception)", cj, spec_text(s));
                if (cnt != 0) co.viol(std::string(approx_names[v]) + ":k0_emitted", "k = 0 emitted " + std::to_string(cnt) + " cycles before/without rejecting", cj, spec_text(s));
                co.tag("k0_call");
                continue;
            }
            std::list<std::list<E>> cycles; W ret = 0; std::string exc, sink_err;
            bool positional = (mix(canon_hash(s), v * 31 + k) % 10) < 4;   // the output iterator is a template parameter: also a positional one
            try {
                if (positional) { SlotSink<std::list<E>> sink((size_t) dim + 4); ret = run_approx_it<W>(v, g, w, k, sink.begin()); sink_err = sink.collect((size_t) dim, cycles); }
                else ret = run_approx<W>(v, g, w, k, cycles);
            } catch (std::exception &e) { exc = e.what(); } catch (std::runtime_error *e) { exc = e->what(); delete e; } catch (...) { exc = "unknown"; }
            if (!exc.empty()) { co.viol(std::string(approx_names[v]) + ":exception", exc, cj, spec_text(s)); continue; }
            if (positional) co.tag("sink:positional");
            if (!sink_err.empty()) { if (!c06) co.viol(std::string(approx_names[v]) + ":output_iterator_misuse", "through a positional output iterator: " + sink_err, cj, spec_text(s)); else co.tag("invalid_basis_skipped(C05)"); continue; }
            if (deref) { // C07 probe: use every returned descriptor with the caller's map after the call returned
                volatile double sink = 0; for (auto &c : cycles) for (auto &e : c) sink = sink + w[e]; (void) sink;
            }
            BasisReport br = check_basis<W>(s, g, cycles);
            std::string obs = J().num("emitted_cycles", (ll) br.count).raw("cycle_weights_units", jnums(br.weights)).dbl("returned", (double) ret).num("spanner_cycle_space_dim", sp_csd).done();
            if (!c06) {
                if (!br.error.empty()) { co.viol(std::string(approx_names[v]) + ":" + br.kind, br.error, cj, spec_text(s), obs); continue; }
                ll ru; if (!to_units_w<W>(s, ret, ru) || ru != br.total)
                    co.viol(std::string(approx_names[v]) + ":returned_ne_emitted", "returned " + std::to_string(ret) + " but the emitted cycles weigh " + std::to_string(br.total) + " units under the caller's map", cj, spec_text(s), obs);
            } else {
                if (!br.error.empty()) { co.tag("invalid_basis_skipped(C05)"); continue; }
                if (br.total < orc.opt) { emit_harness_failure("approximate basis lighter than oracle optimum: oracle is wrong"); exit(2); }
                if (br.total > (ll) (2 * k - 1) * orc.opt)
                    co.viol(std::string(approx_names[v]) + ":bound_exceeded", "emitted weight " + std::to_string(br.total) + " > (2k-1)*OPT = " + std::to_string((ll) (2 * k - 1) * orc.opt), cj, spec_text(s), obs);
                else if (k == 1 && br.total != orc.opt)
                    co.viol(std::string(approx_names[v]) + ":k1_not_minimum", "k = 1 but emitted weight " + std::to_string(br.total) + " != OPT " + std::to_string(orc.opt), cj, spec_text(s), obs);
                if (br.total == orc.opt) co.tag("hit_optimum"); else co.tag("above_optimum");
            }
        }
        if ((int) (i - a.from) < a.samples) co.sample = J().raw("graph", spec_json(s, 40)).num("k", (ll) k).num("cycle_space_dim", dim).num("spanner_cycle_space_dim", sp_csd).str("weight_type", std::is_same<W, int>::value ? "int" : "double").done();
        co.end();
}

static void mode_c0506(const Args &a, bool c06) {
    int max_n = (int) a.geti("max_n", 26);
    bool deref = a.geti("deref", 0) != 0;
    if (c06) {
        std::string why; long q = oracle_selfcheck(a.seed + a.from, (int) a.geti("selfcheck", 40), why);
        if (q < 0) { emit_harness_failure(why); exit(2); }
        emit_summary(J().num("oracle_selfcheck_graphs", q).done());
    }
    int vlo = (int) a.geti("vlo", 0), vhi = (int) a.geti("vhi", 2);
    for (uint64_t i = a.from; i < a.to; i++) {
        Rng r(case_seed(a.seed, c06 ? "C06" : "C05", i));
        size_t k; GraphSpec s; bool use_int = r.chance(0.25);   // the weight value type is a template parameter: int as well as double
        if (!a.replay.empty()) { std::ifstream in(a.replay); if (!parse_spec(in, s)) { emit_harness_failure("cannot parse replay spec"); exit(2); } k = (size_t) a.geti("k", 2); use_int = a.gets("wtype", "double") == "int"; }
        else {
            s = gen_approx_graph(r, max_n, k, use_int);
            if (c06 && r.chance(0.08)) k = 0;
            if (use_int) { ll tot = 0; for (auto &e : s.edges) tot += e.w; if (s.wshift != 0 || s.wmode != 0 || tot * 12 > 2000000000LL) use_int = false; }
        }
        if (use_int) case_c0506<int>(a, c06, i, s, k, deref, vlo, vhi); else case_c0506<double>(a, c06, i, s, k, deref, vlo, vhi);
        if (!a.replay.empty()) break;
    }
}

// ------------------------------------------------------------------------------------------------
// C15
// ------------------------------------------------------------------------------------------------
template<class GT>
static void run_c15_case(const Args &a, CaseOut &co, const GraphSpec &s, size_t k, uint64_t i, const char *gtname) {
    typedef typename boost::graph_traits<GT>::edge_descriptor ET;
    typedef typename boost::property_map<GT, boost::edge_weight_t>::type WMT;
    typedef std::back_insert_iterator<std::list<std::list<ET>>> Out;
        GT g; build_graph_any<double>(s, g); WMT w = boost::get(boost::edge_weight, g);
        EdgeIndex<double, GT> idx(s, g);
        std::string cj = J().str("variant", "BaseApproxSpannerAlgorithm").str("graph_type", gtname).num("k", (ll) k).raw("graph", spec_json(s)).done();
        int n = s.n, m = s.m();
        parmcb::detail::BaseApproxSpannerAlgorithm<GT, WMT, SpyExact<GT, WMT, Out>, false> algo(g, w, boost::get(boost::vertex_index, g), k);
        const GT &sp = algo.verif_spanner();
        const auto &vmap = algo.verif_vertex_g_to_spanner();
        const auto &emap = algo.verif_edge_spanner_to_g();
        const auto &dropped = algo.verif_non_spanner_edges();
        auto fail = [&](const std::string &kind, const std::string &msg) { co.viol("spanner:" + kind, msg, cj, spec_text(s)); };
        bool ok = true;
        // vertex map is a bijection
        std::vector<int> inv(n, -1);
        if ((int) boost::num_vertices(sp) != n || (int) vmap.size() != n) { fail("vertex_map", "spanner has " + std::to_string(boost::num_vertices(sp)) + " vertices, input " + std::to_string(n)); ok = false; }
        else for (int v = 0; v < n; v++) { size_t sv = vmap[v]; if (sv >= (size_t) n || inv[sv] != -1) { fail("vertex_map", "vertex map is not a bijection at input vertex " + std::to_string(v)); ok = false; break; } inv[sv] = v; }
        std::vector<char> kept(m, 0), drop(m, 0);
        std::vector<std::vector<std::pair<int, ll>>> adj(n);
        if (ok) {
            auto spw = boost::get(boost::edge_weight, sp);
            for (auto se : boost::make_iterator_range(boost::edges(sp))) {
                auto it = emap.find(se);
                if (it == emap.end()) { fail("translation", "a spanner edge has no entry in the spanner->input edge map"); ok = false; break; }
                int gi = idx.lookup(it->second, n);
                if (gi < 0) { fail("translation", "a spanner edge translates to something that is not an edge of the input graph"); ok = false; break; }
                int su = inv[boost::source(se, sp)], sv = inv[boost::target(se, sp)];
                if (std::minmax(su, sv) != std::minmax(s.edges[gi].u, s.edges[gi].v)) { fail("translation", "spanner edge (" + std::to_string(su) + "," + std::to_string(sv) + ") translates to input edge (" + std::to_string(s.edges[gi].u) + "," + std::to_string(s.edges[gi].v) + ")"); ok = false; break; }
                if (kept[gi]) { fail("translation", "two spanner edges translate to the same input edge"); ok = false; break; }
                kept[gi] = 1;
                double sw = boost::get(spw, se);
                if (sw != to_weight<double>(s, s.edges[gi].w)) { fail("weight", "spanner edge (" + std::to_string(su) + "," + std::to_string(sv) + ") carries weight " + std::to_string(sw) + ", the input edge weighs " + std::to_string(to_weight<double>(s, s.edges[gi].w))); ok = false; break; }
                adj[s.edges[gi].u].push_back({s.edges[gi].v, s.edges[gi].w}); adj[s.edges[gi].v].push_back({s.edges[gi].u, s.edges[gi].w});
            }
        }
        if (ok) {
            for (auto &de : dropped) { int gi = idx.lookup(de, n); if (gi < 0) { fail("partition", "a dropped edge is not an edge of the input graph"); ok = false; break; }
                if (kept[gi] || drop[gi]) { fail("partition", "input edge index " + std::to_string(gi) + " is both retained and dropped, or dropped twice"); ok = false; break; } drop[gi] = 1; }
            if (ok) for (int e = 0; e < m; e++) if (!kept[e] && !drop[e]) { fail("partition", "input edge index " + std::to_string(e) + " is neither retained nor dropped"); ok = false; break; }
        }
        int n_dropped = 0, girth = 1 << 30;
        if (ok) {
            // every dropped edge has a detour of <= 2k-1 retained edges, none heavier than it
            for (int e = 0; e < m && ok; e++) if (drop[e]) {
                n_dropped++;
                int u = s.edges[e].u, v = s.edges[e].v; ll lim = s.edges[e].w;
                std::vector<int> d(n, -1); std::queue<int> q; d[u] = 0; q.push(u);
                while (!q.empty()) { int x = q.front(); q.pop(); for (auto &p : adj[x]) if (p.second <= lim && d[p.first] < 0) { d[p.first] = d[x] + 1; q.push(p.first); } }
                if (d[v] < 0 || (size_t) d[v] > 2 * k - 1) { fail("stretch", "dropped edge (" + std::to_string(u) + "," + std::to_string(v) + ") of weight " + std::to_string(lim) + " units has no detour of <= " + std::to_string(2 * k - 1) + " retained edges that are no heavier (hop distance " + std::to_string(d[v]) + ")"); ok = false; }
            }
            // girth of the retained subgraph by BFS from every vertex
            for (int src = 0; src < n; src++) {
                std::vector<int> d(n, -1), par(n, -1); std::queue<int> q; d[src] = 0; q.push(src);
                while (!q.empty()) { int x = q.front(); q.pop(); for (auto &p : adj[x]) { int y = p.first; if (d[y] < 0) { d[y] = d[x] + 1; par[y] = x; q.push(y); } else if (par[x] != y) girth = std::min(girth, d[x] + d[y] + 1); } }
            }
            if (girth != (1 << 30) && (size_t) girth <= 2 * k) { fail("girth", "retained subgraph has a cycle of " + std::to_string(girth) + " edges, must exceed 2k = " + std::to_string(2 * k)); ok = false; }
        }
        // what the exact phase really receives
        if (ok) {
            std::list<std::list<ET>> sink; g_spy = SpannerView(); g_spy.n = -1;
            try { algo.run(std::back_inserter(sink)); } catch (...) { }
            if (g_spy.n != n) fail("spy", "exact phase was not handed a graph on the input's vertex count");
            else {
                std::multiset<std::tuple<int, int, double>> seen, want;
                for (auto &t : g_spy.edges) { int x = inv[std::get<0>(t)], y = inv[std::get<1>(t)]; seen.insert(std::make_tuple(std::min(x, y), std::max(x, y), std::get<2>(t))); }
                for (int e = 0; e < m; e++) if (kept[e]) want.insert(std::make_tuple(std::min(s.edges[e].u, s.edges[e].v), std::max(s.edges[e].u, s.edges[e].v), to_weight<double>(s, s.edges[e].w)));
                if (seen != want) fail("spy", "graph/weights handed to the exact phase differ from the retained edges with the input's weights");
            }
        }
        int kept_n = 0; for (char c : kept) kept_n += c;
        co.hash = mix(canon_hash(s), k);
        co.nontrivial = n_dropped >= 1 && kept_n >= 1;
        co.tag("fam:" + s.family.substr(0, s.family.find('+'))); co.tag("k=" + std::to_string(std::min<size_t>(k, 6)) + (k >= 6 ? "+" : ""));
        if (n_dropped) co.tag("has_dropped_edges"); if (girth != (1 << 30)) { co.tag("spanner_has_cycles"); if ((size_t) girth == 2 * k + 1) co.tag("girth==2k+1(tight)"); }
        if (s.tie_rich) co.tag("tie_rich");
        if ((int) (i - a.from) < a.samples) co.sample = J().raw("graph", spec_json(s, 40)).num("k", (ll) k).num("retained", kept_n).num("dropped", n_dropped).num("girth_or_-1", girth == (1 << 30) ? -1 : girth).done();
    co.tag(std::string("graph_type:") + gtname);
}

static void mode_c15(const Args &a) {
    int max_n = (int) a.geti("max_n", 30);
    for (uint64_t i = a.from; i < a.to; i++) {
        Rng r(case_seed(a.seed, "C15", i));
        size_t k; GraphSpec s;
        if (!a.replay.empty()) { std::ifstream in(a.replay); if (!parse_spec(in, s)) { emit_harness_failure("cannot parse replay spec"); exit(2); } k = (size_t) a.geti("k", 2); }
        else { s = gen_approx_graph(r, max_n, k, false); if (r.chance(0.3)) k = (size_t) r.range(1, 6); }
        bool idx_first = r.chance(0.3);
        CaseOut co(i);
        if (idx_first) run_c15_case<GraphIdxFirst>(a, co, s, k, i, "edge_index_before_edge_weight"); else run_c15_case<G>(a, co, s, k, i, "edge_weight_only");
        co.end();
        if (!a.replay.empty()) break;
    }
}

int main(int argc, char **argv) {
    Args a(argc, argv);
    if (a.mode == "c05") mode_c0506(a, false);
    else if (a.mode == "c06") mode_c0506(a, true);
    else if (a.mode == "c15") mode_c15(a);
    else { fprintf(stderr, "unknown mode\n"); return 2; }
    return 0;
}
